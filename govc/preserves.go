package main

import (
	"fmt"
	"sort"
)

// preservesObligations: callee side of `preserves cond : patterns`. On return, whenever cond
// holds, every memory matching the patterns that this path touched equals the entry memory
// (memories the path never touched are the entry memories by construction).
func (vc *VC) preservesObligations(guard string, mem *Mem, env *Env, suffix string) {
	if vc.con == nil {
		return
	}
	for _, pc := range vc.con.Preserves {
		cond := vc.evalBool(pc.E, env)
		var keys []string
		for k := range mem.m {
			keys = append(keys, k)
		}
		// keys hidden behind a lazy join or a wildcard havoc are materialised by asking for them
		for k := range vc.keySort {
			if _, ok := mem.m[k]; !ok && keyMatches(pc.Patterns, k) {
				if _, w := mem.wildFor(k); w || len(mem.lazyMems) > 0 {
					vc.memGet(mem, k, vc.keySort[k])
					keys = append(keys, k)
				}
			}
		}
		sort.Strings(keys)
		var eqs []string
		for _, k := range keys {
			if !keyMatches(pc.Patterns, k) {
				continue
			}
			final := mem.m[k]
			m0 := vc.memGet(vc.mem0, k, vc.keySort[k])
			if final == m0 {
				continue
			}
			// only objects that existed at entry count: this function's own allocations are invisible to callers
			eqs = append(eqs, fmt.Sprintf("(forall ((o Int)) (=> (and (<= 0 o) (< o $A0)) (= (select %s o) (select %s o))))", final, m0))
		}
		if len(eqs) == 0 {
			continue
		}
		o := vc.oblige("preserves", guard, implies(cond, and(eqs...)), vc.fn.Pos(), "preserves "+pc.Text+": the listed memories are unchanged")
		o.Name = fmt.Sprintf("%s#preserves.%d%s", vc.fname(), pc.Ord, suffix)
		o.Tags = pc.Tags
	}
}
