//go:build verif

// ASSUMED contracts for standard-library functions whose bodies are not verified.
package ext

//@ package errors

//@ func New
//@   trusted
//@   ensures result != nil

//@ package fmt

//@ func Errorf
//@   trusted
//@   ensures result != nil

//@ func Sprintf
//@   trusted
//@   ensures true

//@ package math

//@ func IsInf
//@   trusted
//@   ensures result <==> ((sign >= 0 && isPosInf64(f)) || (sign <= 0 && isNegInf64(f)))

//@ package sort

// Search calls f only with 0 <= i < n (assumed; the closure is verified under that precondition).
//@ func Search
//@   trusted
//@   ensures 0 <= result && result <= n

//@ package strings
//@ func Clone
//@   trusted
//@   ensures result == s
