package main

import (
	"go/token"
	"go/types"
	"strings"

	"golang.org/x/tools/go/ssa"
)

// Inlining of helpers without contract.
//
// A call to a function of the SAME package that has no contract, no loop, no defer / go / select /
// closure and at most 40 blocks is executed in place: its blocks run in this VC under the
// caller's path condition and memory, its safety obligations (bounds, nil, division, ...) become
// obligations of the caller, and its return sites are merged into one result and one memory.
// This is exact (no abstraction), so a refactoring that moves a few lines into a new helper keeps
// every proof, and a change hidden in such a helper is still seen. Inside a loop of the caller the
// helper's blocks count as the block of the call site (enclosingLoops), so its stores and
// allocations are checked against that loop's modifies clauses like the caller's own.

func (vc *VC) curFn() *ssa.Function {
	if n := len(vc.inl); n > 0 {
		return vc.inl[n-1]
	}
	return vc.fn
}

func (vc *VC) canInline(f *ssa.Function) bool {
	if len(vc.inl) >= 3 || f.Pkg == nil || vc.fn.Pkg == nil || f.Pkg != vc.fn.Pkg || f == vc.fn {
		return false
	}
	if len(f.Blocks) == 0 || len(f.Blocks) > 40 || f.Recover != nil || len(f.FreeVars) > 0 {
		return false
	}
	for _, g := range vc.inl {
		if g == f {
			return false
		}
	}
	for _, b := range f.Blocks {
		for _, s := range b.Succs {
			if s.Dominates(b) {
				return false // loop
			}
		}
		for _, ins := range b.Instrs {
			switch ins.(type) {
			case *ssa.Defer, *ssa.RunDefers, *ssa.Go, *ssa.Select, *ssa.MakeClosure:
				return false
			}
		}
	}
	return true
}

func (vc *VC) inlineCall(f *ssa.Function, key string, args []SVal, pos token.Pos) SVal {
	vc.note("call to %s (same package, no contract, loop-free): body executed in place, its safety obligations are obligations of this function", shortFuncName(key))
	sCur, sR, sV, sM, sNa, sNf, sB := vc.cur, vc.retR, vc.retVals, vc.retMems, vc.retNalloc, vc.retNfail, vc.retBlks
	vc.retR, vc.retVals, vc.retMems, vc.retNalloc, vc.retNfail, vc.retBlks = nil, nil, nil, nil, nil, nil
	if len(vc.inl) == 0 {
		vc.inlSite = sCur
	}
	vc.inl = append(vc.inl, f)
	for _, b := range f.Blocks {
		delete(vc.R, b)
		delete(vc.memOut, b)
	}
	for i, p := range f.Params {
		vc.vals[p] = vc.coerce(args[i], p.Type())
	}
	vc.inlR = vc.R[sCur]
	if vc.inlGuard != "" {
		vc.inlR = vc.def("Rg", SBool, and(vc.R[sCur], vc.inlGuard))
		vc.inlGuard = ""
	}
	vc.inlMem = vc.curMem
	for _, b := range rpo(f, vc.isBack) {
		vc.execBlock(b)
	}
	if len(vc.retR) == 0 {
		unsup("inlined call to %s: no return is reachable", key)
	}
	sig := f.Signature
	nres := sig.Results().Len()
	merged := make([]SVal, nres)
	for i := 0; i < nres; i++ {
		v := vc.retVals[len(vc.retVals)-1][i]
		for k := len(vc.retVals) - 2; k >= 0; k-- {
			v = vc.iteVal(vc.retR[k], vc.retVals[k][i], v)
		}
		merged[i] = vc.nameVal(v, "inl")
	}
	var mem *Mem
	if len(vc.retMems) == 1 {
		mem = vc.retMems[0]
	} else {
		mem = vc.mergeMems(vc.retR, vc.retMems)
	}
	na, nf := vc.retNalloc[len(vc.retNalloc)-1], vc.retNfail[len(vc.retNfail)-1]
	for k := len(vc.retR) - 2; k >= 0; k-- {
		if vc.retNalloc[k] != na {
			na = ite(vc.retR[k], vc.retNalloc[k], na)
		}
		if vc.retNfail[k] != nf {
			nf = ite(vc.retR[k], vc.retNfail[k], nf)
		}
	}
	bound := vc.curBound()
	vc.inl = vc.inl[:len(vc.inl)-1]
	if len(vc.inl) == 0 {
		vc.inlSite = nil
	}
	vc.cur, vc.retR, vc.retVals, vc.retMems, vc.retNalloc, vc.retNfail, vc.retBlks = sCur, sR, sV, sM, sNa, sNf, sB
	vc.curMem = mem.clone()
	vc.nalloc, vc.nfail = na, nf
	vc.bound = bound
	switch nres {
	case 0:
		return SVal{}
	case 1:
		return merged[0]
	}
	return SVal{K: KTuple, T: sig.Results(), F: merged}
}

var _ types.Type

// nameQuantLet: a boolean `let` whose value contains a quantifier is given a name (a declared
// constant with a defining equation) instead of being pasted into every clause that uses it:
// `ite(big, 6, 3)` with big = (exists k ...) otherwise repeats the quantifier inside arithmetic
// terms of caller and callee clauses, and relating the copies cost the solvers 15-60 s.
func (vc *VC) nameQuantLet(name string, v SVal) SVal {
	if v.K == KInt && len(v.S) > 80 {
		// a long integer term (a chain of loads): named too, so that quantified lets built from it
		// stay small and the caller's and the callee's copies differ in one constant only
		n := vc.declare(vc.sym("let_"+name), SInt)
		vc.fact("true", eq(n, v.S))
		v.S = n
		return v
	}
	if v.K != KBool || !(strings.Contains(v.S, "(exists ") || strings.Contains(v.S, "(forall ")) {
		return v
	}
	n := vc.declare(vc.sym("let_"+name), SBool)
	vc.fact("true", eq(n, v.S))
	v.S = n
	return v
}

func hasPlainTag(tags []string, p string) bool {
	for _, t := range tags {
		if t == p {
			return true
		}
	}
	return false
}

// bindHeaderDebug: a source variable whose debug binding in the loop header block IS a header phi
// (go/ssa's lowering of `for i := range n`: the phi is commented "rangeint.iter" and `i` is bound
// to it inside the header) is made visible to the loop's invariants under its source name, with
// the value that phi has in the state the invariants are evaluated in.
func (vc *VC) bindHeaderDebug(header *ssa.BasicBlock, phiVals map[string]SVal, valueOf func(*ssa.Phi) SVal) {
	for _, ins := range header.Instrs {
		d, ok := ins.(*ssa.DebugRef)
		if !ok || d.IsAddr || d.Object() == nil {
			continue
		}
		phi, isPhi := d.X.(*ssa.Phi)
		if !isPhi || phi.Block() != header {
			continue
		}
		n := vc.eng.rn(vc.selfKey(), d.Object().Name())
		if _, have := phiVals[n]; !have {
			phiVals[n] = valueOf(phi)
		}
	}
	if l := vc.loops[header]; l != nil {
		if _, bound := rangeIntBound(l); bound != nil {
			phiVals["rangeint.bound"] = vc.val(bound)
		}
	}
}

// rangeIntBound: for a loop that go/ssa produced from `for i := range n` (header commented
// "rangeint.body", counter phi "rangeint.iter", latch "rangeint.loop" computing iter+1 < n),
// returns the counter phi and the bound n.
func rangeIntBound(l *loopInfo) (*ssa.Phi, ssa.Value) {
	if l.header.Comment != "rangeint.body" {
		return nil, nil
	}
	var iter *ssa.Phi
	for _, ins := range l.header.Instrs {
		if p, ok := ins.(*ssa.Phi); ok && p.Comment == "rangeint.iter" {
			iter = p
		}
	}
	if iter == nil {
		return nil, nil
	}
	for b := range l.body {
		if b.Comment != "rangeint.loop" {
			continue
		}
		var inc ssa.Value
		for _, ins := range b.Instrs {
			if bo, ok := ins.(*ssa.BinOp); ok {
				if bo.Op == token.ADD && bo.X == iter {
					inc = bo
				}
				if bo.Op == token.LSS && inc != nil && bo.X == inc {
					return iter, bo.Y
				}
			}
		}
	}
	return nil, nil
}

// autoInvs: invariants the engine adds by itself - and proves like any other (on entry and on
// every back edge). For range-over-int loops: 0 <= counter < n at the header, which is what the
// lowering guarantees (the header is the first block of the body) and what the source-level loop
// `for i := 0; i < n; i++` gives its body through the loop condition.
func (vc *VC) autoInvs(l *loopInfo) []*Clause {
	iter, bound := rangeIntBound(l)
	if iter == nil {
		return nil
	}
	_ = bound
	e := &EBin{"&&", &EBin{"<=", &EInt{"0"}, &EIdent{"rangeint.iter"}}, &EBin{"<", &EIdent{"rangeint.iter"}, &EIdent{"rangeint.bound"}}}
	return []*Clause{{Kind: "invariant", Text: "auto (range-over-int lowering): 0 <= counter && counter < n", E: e, Loop: l.ord, Ord: 900 + l.ord}}
}

// sortSearch: sort.Search(n, f) with f a function literal of this function. What the binary search
// guarantees for ANY predicate (no monotonicity needed) is its own loop invariant at exit:
// 0 <= r <= n, f(r) if r < n, !f(r-1) if r > 0. Both applications are ground, so the literal's
// body is executed in place twice (under the guards r < n and r > 0; its safety obligations become
// obligations of the caller under those guards). The literal must not write memory.
func (vc *VC) sortSearch(c *ssa.CallCommon, pos token.Pos) (SVal, bool) {
	mc, ok := c.Args[1].(*ssa.MakeClosure)
	if !ok {
		return SVal{}, false
	}
	fn, ok := mc.Fn.(*ssa.Function)
	if !ok || len(fn.Params) != 1 || len(fn.Blocks) == 0 || len(fn.Blocks) > 10 {
		return SVal{}, false
	}
	for _, b := range fn.Blocks {
		for _, s := range b.Succs {
			if s.Dominates(b) {
				return SVal{}, false
			}
		}
		for _, ins := range b.Instrs {
			switch ins.(type) {
			case *ssa.Store, *ssa.Call, *ssa.Defer, *ssa.Go, *ssa.Select, *ssa.MakeClosure, *ssa.MapUpdate, *ssa.Send:
				return SVal{}, false
			}
		}
	}
	if len(vc.inl) > 0 {
		return SVal{}, false
	}
	vc.note("sort.Search with a function literal: result r with 0 <= r <= n, f(r) if r < n, !f(r-1) if r > 0 (the exit state of the binary search, valid for any predicate; the literal is executed in place at those two points)")
	R := vc.R[vc.cur]
	n := vc.val(c.Args[0])
	r := vc.fresh(types.Typ[types.Int], "search")
	vc.fact(R, and(le("0", r.S), le(r.S, n.S)))
	for i, fv := range fn.FreeVars {
		vc.vals[fv] = vc.val(mc.Bindings[i])
	}
	apply := func(arg, guard string) string {
		vc.inlGuard = guard
		res := vc.inlineCall(fn, fn.String(), []SVal{intV(arg, types.Typ[types.Int])}, pos)
		return res.S
	}
	g1 := lt(r.S, n.S)
	f1 := apply(r.S, g1)
	vc.fact(R, implies(g1, f1))
	g2 := lt("0", r.S)
	f2 := apply(sub(r.S, "1"), g2)
	vc.fact(R, implies(g2, not(f2)))
	return r, true
}


// Deferred function literals.
//
// `defer func() { if !done { ch.Free() } }()` - a literal that is loop-free, defers nothing, starts
// no goroutine, builds no closure and does not call recover - is executed in place at every
// RunDefers point like a contract-less helper (inlineCall): its free variables are bound to the
// cells the MakeClosure instruction captured, so it reads the values those variables have when the
// function returns. A literal that calls recover (or contains anything else of the list above)
// keeps the function out of subset. The panic exit is not modelled (as for every defer).
func deferredLiteralOK(mc *ssa.MakeClosure) string {
	f, ok := mc.Fn.(*ssa.Function)
	if !ok || len(f.Blocks) == 0 {
		return "no body"
	}
	if len(f.Blocks) > 40 {
		return "more than 40 blocks"
	}
	if f.Recover != nil {
		return "the literal defers"
	}
	for _, b := range f.Blocks {
		for _, s := range b.Succs {
			if s.Dominates(b) {
				return "the literal has a loop"
			}
		}
		for _, ins := range b.Instrs {
			switch x := ins.(type) {
			case *ssa.Defer, *ssa.RunDefers, *ssa.Go, *ssa.Select, *ssa.MakeClosure:
				return "defer / go / select / closure inside the literal"
			case *ssa.Call:
				if bi, isB := x.Call.Value.(*ssa.Builtin); isB && bi.Name() == "recover" {
					return "the literal calls recover"
				}
			}
		}
	}
	return ""
}

func (vc *VC) runDeferred(d *ssa.Defer) {
	mc, lit := d.Call.Value.(*ssa.MakeClosure)
	if !lit || strings.HasSuffix(mc.Fn.Name(), "$bound") {
		vc.call(d.Common(), nil, d.Pos())
		return
	}
	f := mc.Fn.(*ssa.Function)
	if why := deferredLiteralOK(mc); why != "" || len(vc.inl) >= 3 {
		unsup("deferred function literal cannot be executed in place (%s)", why)
	}
	for i, fv := range f.FreeVars {
		vc.vals[fv] = vc.val(mc.Bindings[i])
	}
	var args []SVal
	for _, a := range d.Call.Args {
		args = append(args, vc.val(a))
	}
	vc.nCalls++
	vc.inlineCall(f, f.String(), args, d.Pos())
}
