#!/bin/bash
# Applies each seeded / must-fail patch to /repo, runs the check of the property it breaks, reverts.
# usage: run_seeded.sh [name-substring]
cd /verif
for d in seeded/*/ selftest/mustfail/*.diff; do
  case "$d" in
    seeded/*) name=$(basename $d); patch=/verif/$d/patch.diff; prop=$(python3 -c "import json;m=json.load(open('$d/meta.json'));print(m.get('check_property',m['breaks_property']))");;
    *) name=$(basename $d .diff); patch=/verif/$d; prop=${name%%-*};;
  esac
  [ -n "${1:-}" ] && [[ "$name" != *"$1"* ]] && continue
  if ! git -C /repo apply --check $patch 2>/dev/null; then echo "SKIP $name (patch does not apply)"; continue; fi
  git -C /repo apply $patch
  out=$(./bin/govc check --property $prop --no-evidence 2>&1); rc=$?
  git -C /repo apply -R $patch
  nv=$(echo "$out" | grep -c '^VIOLATION')
  nc=$(echo "$out" | grep '^VIOLATION' | grep -vc 'no-failing-input-found')
  echo "$name [$prop]: exit $rc, $nv violation line(s), $nc with confirmed replay: $(echo "$out" | grep '^VIOLATION' | head -2 | sed 's/.*obligation=//' | tr '\n' ' ')"
done
git -C /repo status --short | grep -v '^??' | head
