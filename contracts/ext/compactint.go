//go:build verif

// Contracts for github.com/basecomplextech/baselibrary/encoding/compactint (dependency;
// the source is loaded from the module cache and VERIFIED against these contracts).
// Clauses tagged [C02] are the weak bounds the panic-freedom proofs need; clauses tagged
// [!C02] are the exact functional results used by every other property.
package ext

//@ package github.com/basecomplextech/baselibrary/encoding/compactint

//@ func ReverseSize
//@   safety[C02]
//@   ensures[C02] 0 <= result && result <= len(b) && result <= 9
//@   ensures[!C02] result == ite(varintSize(mem(b), lo(b), hi(b)) < 0, 0, varintSize(mem(b), lo(b), hi(b)))

//@ func ReverseUint32
//@   safety[C02]
//@   let n = varintSize(mem(b), lo(b), hi(b))
//@   ensures[C02] 0 - 1 <= result1 && result1 <= len(b) && result1 <= 5
//@   ensures[!C02] len(b) > 0 && b[len(b)-1] == 255 ==> result1 == 0 - 1 && result0 == 0
//@   ensures[!C02] (len(b) == 0 || b[len(b)-1] != 255) && n < 0 ==> result1 == 0 && result0 == 0
//@   ensures[!C02] n >= 1 && n <= 5 ==> result1 == n && result0 == varintVal(mem(b), hi(b), n)

//@ func ReverseUint64
//@   safety[C02]
//@   let n = varintSize(mem(b), lo(b), hi(b))
//@   ensures[C02] 0 <= result1 && result1 <= len(b) && result1 <= 9
//@   ensures[!C02] n < 0 ==> result1 == 0 && result0 == 0
//@   ensures[!C02] n >= 1 ==> result1 == n && result0 == varintVal(mem(b), hi(b), n)

//@ func ReverseInt32
//@   safety[C02]
//@   let n = varintSize(mem(b), lo(b), hi(b))
//@   ensures[C02] 0 - 1 <= result1 && result1 <= len(b) && result1 <= 5
//@   ensures[!C02] len(b) > 0 && b[len(b)-1] == 255 ==> result1 == 0 - 1 && result0 == 0
//@   ensures[!C02] (len(b) == 0 || b[len(b)-1] != 255) && n < 0 ==> result1 == 0 && result0 == 0
//@   ensures[!C02] n >= 1 && n <= 5 ==> result1 == n && result0 == unzigzag(varintVal(mem(b), hi(b), n))

//@ func ReverseInt64
//@   safety[C02]
//@   let n = varintSize(mem(b), lo(b), hi(b))
//@   ensures[C02] 0 <= result1 && result1 <= len(b) && result1 <= 9
//@   ensures[!C02] n < 0 ==> result1 == 0 && result0 == 0
//@   ensures[!C02] n >= 1 ==> result1 == n && result0 == unzigzag(varintVal(mem(b), hi(b), n))
