package main

import (
	"fmt"
	"go/token"
	"go/types"
	"os"
	"path/filepath"
	"regexp"
	"sort"
	"strings"

	"golang.org/x/tools/go/packages"
	"golang.org/x/tools/go/ssa"
	"golang.org/x/tools/go/ssa/ssautil"
)

type specFn struct {
	params []string
	result string
}

type Engine struct {
	repo       string
	verif      string
	prog       *ssa.Program
	pkgs       []*packages.Package
	contracts  *ContractSet
	specFuncs  map[string]specFn
	specConsts map[string]string
	prelude    string
	preludeModel string
	strIDs     map[string]int
	typeIDs    map[string]int
	funcs      map[string]*ssa.Function
	loadErrs   []string
	keyHints   map[string]Sort
	globalInit map[*ssa.Global]bool
	esc        *escOracle
	overlaySrc map[string][]byte
	aliases    map[string]map[string]string // alias.go: function key -> current name -> recorded name
}

func (e *Engine) stringID(s string) int {
	if id, ok := e.strIDs[s]; ok {
		return id
	}
	id := len(e.strIDs) + 1
	e.strIDs[s] = id
	return id
}

func (e *Engine) typeID(T types.Type) int {
	k := types.TypeString(T, nil)
	if id, ok := e.typeIDs[k]; ok {
		return id
	}
	id := len(e.typeIDs) + 1
	e.typeIDs[k] = id
	return id
}

func (e *Engine) keySortHint(key string) Sort {
	if strings.HasSuffix(key, "?bool") {
		return SBool
	}
	if s, ok := e.keyHints[key]; ok {
		return s
	}
	return SInt
}

var reDefFun = regexp.MustCompile(`^\(define-fun(?:-rec)?\s+([A-Za-z_][A-Za-z0-9_]*)\s+\(((?:\s*\([^()]*(?:\([^()]*\))*[^()]*\))*)\s*\)\s+(\(Array Int Int\)|Int|Bool|\(_ FloatingPoint \d+ \d+\))`)
var reDeclFun = regexp.MustCompile(`^\(declare-fun\s+([A-Za-z_][A-Za-z0-9_]*)\s+\(([^)]*(?:\([^()]*\)[^)]*)*)\)\s+(\(Array Int Int\)|Int|Bool)`)

func (e *Engine) loadSpec(dir string) error {
	files, _ := filepath.Glob(filepath.Join(dir, "*.smt2"))
	sort.Strings(files)
	var sb strings.Builder
	for _, f := range files {
		b, err := os.ReadFile(f)
		if err != nil {
			return err
		}
		sb.WriteString("; ---- " + filepath.Base(f) + "\n")
		sb.Write(b)
		sb.WriteString("\n")
		for _, line := range strings.Split(string(b), "\n") {
			if m := reDefFun.FindStringSubmatch(line); m != nil {
				n := strings.Count(m[2], "(") - strings.Count(m[2], "(Array") - strings.Count(m[2], "(_")
				// count top-level parameter groups
				n = countParams(m[2])
				e.specFuncs[m[1]] = specFn{params: make([]string, n), result: m[3]}
			} else if strings.HasPrefix(line, "(declare-fun ") {
				// (declare-fun name (sorts...) result)
				rest := strings.TrimSpace(line[len("(declare-fun "):])
				sp := strings.IndexAny(rest, " \t")
				if sp < 0 {
					continue
				}
				name := rest[:sp]
				rest = strings.TrimSpace(rest[sp:])
				if !strings.HasPrefix(rest, "(") {
					continue
				}
				depth, end := 0, -1
				for i, c := range rest {
					if c == '(' {
						depth++
					} else if c == ')' {
						depth--
						if depth == 0 {
							end = i
							break
						}
					}
				}
				if end < 0 {
					continue
				}
				n := countSorts(rest[1:end])
				result := strings.TrimSpace(strings.TrimSuffix(strings.TrimSpace(rest[end+1:]), ")"))
				e.specFuncs[name] = specFn{params: make([]string, n), result: result}
			}
		}
	}
	e.prelude = sb.String()
	// model-search variant: the trigger-friendly uninterpreted functions (proof-only sections) are
	// replaced by their definitions (;@model lines). Every model of this variant satisfies the
	// proof variant's axioms, so "sat" here is a genuine counterexample to the obligation.
	var mb strings.Builder
	skip := false
	for _, line := range strings.Split(e.prelude, "\n") {
		switch {
		case strings.HasPrefix(line, ";@proof-only"):
			skip = true
		case strings.HasPrefix(line, ";@end"):
			skip = false
		case strings.HasPrefix(line, ";@model "):
			mb.WriteString(line[len(";@model "):] + "\n")
		case !skip:
			mb.WriteString(line + "\n")
		}
	}
	e.preludeModel = mb.String()
	return nil
}

func countParams(s string) int {
	depth, n := 0, 0
	for _, c := range s {
		switch c {
		case '(':
			if depth == 0 {
				n++
			}
			depth++
		case ')':
			depth--
		}
	}
	return n
}

func countSorts(s string) int {
	depth, n := 0, 0
	inTok := false
	for _, c := range s {
		switch {
		case c == '(':
			if depth == 0 {
				n++
			}
			depth++
			inTok = false
		case c == ')':
			depth--
			inTok = false
		case c == ' ' || c == '\t':
			inTok = false
		default:
			if depth == 0 && !inTok {
				n++
			}
			inTok = true
		}
	}
	return n
}

func newEngine(repo, verif string) *Engine {
	return &Engine{repo: repo, verif: verif, specFuncs: map[string]specFn{}, specConsts: map[string]string{},
		strIDs: map[string]int{}, typeIDs: map[string]int{}, funcs: map[string]*ssa.Function{}, keyHints: map[string]Sort{}}
}

func (e *Engine) load(patterns []string) error {
	cfg := &packages.Config{Mode: packages.LoadAllSyntax, Dir: e.repo, BuildFlags: []string{"-tags=verif"},
		Env: append(os.Environ(), "GOFLAGS=-mod=mod", "GOPROXY=off", "GOTOOLCHAIN=local", "PATH=/opt/veriftools/go1.26.8/bin:"+os.Getenv("PATH"))}
	// grammar actions of the schema parser, extracted from grammar.go on every run (yyextract.go)
	for _, p := range patterns {
		if strings.HasSuffix(p, "/internal/lang/parser") {
			path, src, xerr := extractYaccActions(filepath.Join(e.repo, "internal/lang/parser"))
			if xerr != nil {
				e.loadErrs = append(e.loadErrs, "yacc action extraction: "+xerr.Error())
				break
			}
			cfg.Overlay = map[string][]byte{path: src}
			e.overlaySrc = map[string][]byte{path: src}
		}
	}
	pkgs, err := packages.Load(cfg, patterns...)
	if err != nil {
		return err
	}
	packages.Visit(pkgs, nil, func(p *packages.Package) {
		for _, er := range p.Errors {
			e.loadErrs = append(e.loadErrs, er.Error())
		}
	})
	prog, _ := ssautil.AllPackages(pkgs, ssa.GlobalDebug|ssa.InstantiateGenerics)
	prog.Build()
	e.prog = prog
	e.pkgs = pkgs
	for fn := range ssautil.AllFunctions(prog) {
		if fn.Synthetic != "" && !strings.Contains(fn.Synthetic, "instance") {
			continue
		}
		e.funcs[fn.String()] = fn
	}
	// sort hints: memory keys of boolean struct fields (needed when a 'modifies' clause names the
	// key before any load or store of the function has used it)
	for _, p := range prog.AllPackages() {
		if p.Pkg == nil {
			continue
		}
		sc := p.Pkg.Scope()
		for _, n := range sc.Names() {
			tn, ok := sc.Lookup(n).(*types.TypeName)
			if !ok {
				continue
			}
			st, ok := tn.Type().Underlying().(*types.Struct)
			if !ok {
				continue
			}
			for i := 0; i < st.NumFields(); i++ {
				if b, ok := st.Field(i).Type().Underlying().(*types.Basic); ok && b.Info()&types.IsBoolean != 0 {
					e.keyHints[typeKey(tn.Type())+"."+st.Field(i).Name()] = SBool
				}
			}
		}
	}
	return nil
}

// ---------------------------------------------------------------- exit: ensures

func (vc *VC) finish() {
	if len(vc.retR) == 0 {
		return
	}
	Rexit := vc.def("Rexit", SBool, or(vc.retR...))
	sig := vc.fn.Signature
	nres := sig.Results().Len()
	merged := make([]SVal, nres)
	for i := 0; i < nres; i++ {
		v := vc.retVals[len(vc.retVals)-1][i]
		for k := len(vc.retVals) - 2; k >= 0; k-- {
			v = vc.iteVal(vc.retR[k], vc.retVals[k][i], v)
		}
		merged[i] = vc.nameVal(v, "res")
	}
	vc.mergedResults = merged
	var mem *Mem
	if len(vc.retMems) == 1 {
		mem = vc.retMems[0]
	} else {
		mem = vc.mergeMems(vc.retR, vc.retMems)
	}
	vc.cur = nil
	old := vc.entryEnv()
	env := &Env{vc: vc, vars: map[string]SVal{}, mem: mem, old: old}
	for k, v := range old.vars {
		env.vars[k] = v
	}
	var result SVal
	switch nres {
	case 0:
	case 1:
		result = merged[0]
	default:
		result = SVal{K: KTuple, T: sig.Results(), F: merged}
	}
	bindResults(env, sig, result)
	vc.eng.aliasEnv(env, vc.selfKey())
	// cover: the exit is reachable under the precondition
	cv := vc.oblige("cover", Rexit, "false", vc.fn.Pos(), "cover: some return is reachable under the precondition")
	cv.Cover = true
	vc.frameObligations(Rexit, mem, old)
	vc.resetObligations(Rexit, env)
	if vc.con == nil {
		return
	}
	// "free" results: every result leaf an unconstrained constant. The same clause over them is
	// what the replay pins to the REAL outputs, so that the solver (not model agreement) decides
	// whether what the real function returned falsifies the clause. Only for functions whose
	// results are scalars / errors and that leave memory unchanged.
	scalarResults := nres > 0
	for _, r := range merged {
		if r.K != KInt && r.K != KBool && r.K != KRef {
			scalarResults = false
		}
	}
	var freeEnv *Env
	if scalarResults && len(mem.m) == 0 && len(mem.wild) == 0 && len(mem.lazyMems) == 0 {
		freeEnv = &Env{vc: vc, vars: map[string]SVal{}, mem: vc.mem0, old: old}
		for k, v := range old.vars {
			freeEnv.vars[k] = v
		}
		var fr []SVal
		for i, r := range merged {
			n := vc.declare(fmt.Sprintf("$free_res_%d", i), map[Kind]Sort{KInt: SInt, KBool: SBool, KRef: SInt}[r.K])
			x := r
			x.S = n
			fr = append(fr, x)
		}
		vc.freeResults = fr
		var fres SVal
		if nres == 1 {
			fres = fr[0]
		} else {
			fres = SVal{K: KTuple, T: sig.Results(), F: fr}
		}
		bindResults(freeEnv, sig, fres)
		vc.eng.aliasEnv(freeEnv, vc.selfKey())
	}
	// A function that changes memory and has several return sites gets one obligation per
	// (clause, return site), named #ensures.K/rN (N = ordinal of the return statement in source
	// order): the goal then talks about that path's own memory instead of an ite-merge of all.
	memChanged := false
	for _, m := range vc.retMems {
		if len(m.m) > 0 || len(m.wild) > 0 || len(m.lazyMems) > 0 {
			memChanged = true
		}
	}
	declaresEffects := false
	for _, md := range vc.con.Mods {
		if md.Loop == 0 {
			declaresEffects = true
		}
	}
	if memChanged && declaresEffects && len(vc.retR) > 1 {
		order := make([]int, len(vc.retR))
		for i := range order {
			order[i] = i
		}
		retPos := func(i int) token.Pos {
			b := vc.retBlks[i]
			return b.Instrs[len(b.Instrs)-1].Pos()
		}
		sort.SliceStable(order, func(a, b int) bool { return retPos(order[a]) < retPos(order[b]) })
		for n, i := range order {
			var ri SVal
			switch nres {
			case 0:
			case 1:
				ri = vc.retVals[i][0]
			default:
				ri = SVal{K: KTuple, T: sig.Results(), F: vc.retVals[i]}
			}
			envi := &Env{vc: vc, vars: map[string]SVal{}, mem: vc.retMems[i], old: old}
			for k, v := range old.vars {
				envi.vars[k] = v
			}
			bindResults(envi, sig, ri)
			vc.eng.aliasEnv(envi, vc.selfKey())
			for _, c := range vc.con.Ensures {
				o := vc.oblige("ensures", vc.retR[i], vc.evalBool(c.E, envi), retPos(i), c.Text)
				o.Name = fmt.Sprintf("%s#ensures.%d/r%d", vc.fname(), c.Ord, n+1)
				o.Tags = c.Tags
			}
			vc.preservesObligations(vc.retR[i], vc.retMems[i], envi, fmt.Sprintf("/r%d", n+1))
		}
	} else {
		vc.preservesObligations(Rexit, mem, env, "")
		for _, c := range vc.con.Ensures {
			o := vc.oblige("ensures", Rexit, vc.evalBool(c.E, env), vc.fn.Pos(), c.Text)
			o.Name = fmt.Sprintf("%s#ensures.%d", vc.fname(), c.Ord)
			o.Tags = c.Tags
			if freeEnv != nil {
				o.GoalFree = vc.evalBool(c.E, freeEnv)
			}
		}
	}
	for _, c := range vc.con.Canaries {
		o := vc.oblige("canary", Rexit, vc.evalBool(c.E, env), vc.fn.Pos(), c.Text)
		o.Name = fmt.Sprintf("%s#canary.%d", vc.fname(), c.Ord)
		o.Tags = c.Tags
		o.Canary = true
	}
	// allocation effect: on every return where the clause's condition holds the count is zero
	if vc.tracksAlloc() && len(vc.con.NoAlloc) > 0 && len(vc.retNalloc) == len(vc.retR) {
		n := vc.retNalloc[len(vc.retNalloc)-1]
		for k := len(vc.retNalloc) - 2; k >= 0; k-- {
			n = ite(vc.retR[k], vc.retNalloc[k], n)
		}
		n = vc.def("nalloc_exit", SInt, n)
		// calleesok: no call made on the returning path reported an error
		nf := vc.retNfail[len(vc.retNfail)-1]
		for k := len(vc.retNfail) - 2; k >= 0; k-- {
			nf = ite(vc.retR[k], vc.retNfail[k], nf)
		}
		env.vars["calleesok"] = boolV(eq(vc.def("nfail_exit", SInt, nf), "0"))
		for _, c := range vc.con.NoAlloc {
			cond := vc.evalBool(c.E, env)
			o := vc.oblige("noalloc", Rexit, implies(cond, eq(n, "0")), vc.fn.Pos(), "no heap allocation when "+c.Text)
			o.GoalFree = cond // the replay looks for ANY input that returns under this condition and measures it
			o.Name = fmt.Sprintf("%s#noalloc.%d", vc.fname(), c.Ord)
			o.Tags = c.Tags
		}
		for _, s := range vc.allocSites {
			vc.note("allocation site (compiler escape analysis): %s", s)
		}
	}
}
