NA = {
 "C03": "order / exactly-once delivery over all interleavings of send loop, receive loop and user goroutines: not expressible as per-call contracts; per-hop payload integrity is covered under C01/C05 clauses but is not this property",
 "C06": "the property is the race window between channel-map lookup and reference-count increment under concurrent Free; sequentially acquire is trivially correct, nothing is left for a contract to decide",
 "C09": "every cut point x every blocked operation x bounded time x reconnection: fault sequences and liveness; no per-function contract states 'every waiter is released'",
 "C20": "exactly-once listener invocation when registration, unsubscription and close race: the sequential contract holds vacuously; the property lives in the interleavings",
}
checks.append(chk("C02",
 "Proof for all byte strings (no length bound): every index, slice, nil, unsafe-read and explicit-panic obligation, plus 0<=n<=len(b) and returned-data-inside-input postconditions, of every function of internal/decode, internal/format and internal/types, and of the compactint / encoding/binary / bin dependency functions they call, generated from the current source and discharged by SMT.",
 "Representation invariant of List/Message (table.data <= len(bytes)) is a precondition of their methods and a verified postcondition of every constructor; List.Get/GetBytes require 0<=i<Len (documented panic). errors.New / fmt.Errorf assumed non-nil. Termination of the ParseValue/ParseList/ParseMessage recursion is not checked. Not yet under contract: top-level generic list wrappers and generated struct decoders.",
 TECH, "DESIGN.md section 4 C02"))
checks.append(chk("C13",
 "Proof: every decoder, DecodeTypeSize, OpenValue and ParseValue/List/Message return, on success, exactly valueSize(b) - one SMT spec function that reads nothing before len(b)-n - so parse, open and probe agree and the result is a function of the value's own bytes.",
 "valueSize is the specification (written from the property text with literal type codes). Locality follows from valueSize/varintVal reading only indices >= len(b)-n (by construction of the spec functions); the nested-field re-read clause relies on ParseMessage/ParseList loop contracts. DecodeBool with a non-bool type byte is outside the statement.",
 TECH, "DESIGN.md section 4 C13"))
checks.append(chk("C10",
 "Proof over the full domain of each integer/byte/bool/bytes/string/bin type: decoder result equals the spec decoding of the wire bytes for every stored width of the same family, error exactly when not representable; truncated or foreign type codes are errors.",
 "Encoder and decoder are each verified against the same SMT spec functions; the round trip and every (stored width x read width) pair are ghost client programs (internal/verifh, build tag verif) whose postconditions are proved from the two callee CONTRACTS only. Floats use the SMT floating-point theory (one NaN value: NaN-iff-NaN; +0/-0 distinct); float64->float32 of an in-range value is IEEE round-to-nearest, which the statement's 'same value when representable' does not forbid. math.Float32bits/frombits are engine intrinsics (bit reinterpretation); math.IsInf is an assumed contract.",
 TECH, "DESIGN.md section 4 C10"))

checks.append(chk("C08",
 "Proof: for every encoder (bool, byte, ints, floats, bin64/128/256, bytes, string, struct trailer, list and message tables) the bytes appended to the buffer equal a spec function of the arguments only - literal type codes, big-endian fields, reverse compact varints with the 0xfc/0xffff/0xffffffff thresholds, NUL terminator, 3/6 and 2/4 byte table entries, big form exactly when a tag > 255, an offset > 65535 or more than 255 elements - and the bytes already in the buffer are preserved. buffer.Grow's assumed contract leaves the new bytes UNSPECIFIED, so dependence on buffer history cannot meet the postcondition.",
 "buffer.Buffer is an interface: its contract (Grow returns the n bytes after the old content, old content preserved, new bytes unspecified) is assumed. compactint.PutReverse*, encoding/binary PutUint*, bin MarshalTo are verified from source, not assumed. The 'independent reference implementation' of the statement is played by the SMT spec functions (written from the property text with literal constants). Writer-level ordering of table entries (sorted by tag) is under C01/C12.",
 TECH, "DESIGN.md section 4 C08"))
