package main

// Counterexample replay: turn a solver model into a Go test that calls the REAL function on
// the model's input, injected with `go test -overlay` (nothing is written to /repo).

import (
	"bufio"
	"context"
	"encoding/json"
	"fmt"
	"go/types"
	"io"
	"math/big"
	"os"
	"os/exec"
	"path/filepath"
	"regexp"
	"strings"
	"time"
)

var reHarnessPkg = regexp.MustCompile(`(^|[^A-Za-z0-9_."])(fmt|reflect|debug|syscall|testing|unsafe)\.`)

type replayResult struct {
	Path      string
	Confirmed bool
}

type z3session struct {
	cmd *exec.Cmd
	in  io.WriteCloser
	out *bufio.Reader
}

func startZ3(timeoutSec int) (*z3session, error) {
	cmd := exec.Command("z3-new", "-in", "-smt2", fmt.Sprintf("-t:%d", timeoutSec*1000))
	in, err := cmd.StdinPipe()
	if err != nil {
		return nil, err
	}
	outp, err := cmd.StdoutPipe()
	if err != nil {
		return nil, err
	}
	cmd.Stderr = cmd.Stdout
	if err := cmd.Start(); err != nil {
		return nil, err
	}
	return &z3session{cmd: cmd, in: in, out: bufio.NewReaderSize(outp, 1<<20)}, nil
}

func (s *z3session) send(x string) { io.WriteString(s.in, x+"\n") }

// readSexp reads one complete s-expression or atom line from the solver.
func (s *z3session) readSexp() (string, error) {
	var sb strings.Builder
	depth := 0
	started := false
	for {
		line, err := s.out.ReadString('\n')
		if err != nil {
			return sb.String(), err
		}
		sb.WriteString(line)
		for _, c := range line {
			if c == '(' {
				depth++
				started = true
			} else if c == ')' {
				depth--
			}
		}
		if strings.TrimSpace(line) != "" && (!started || depth <= 0) {
			return strings.TrimSpace(sb.String()), nil
		}
	}
}

func (s *z3session) close() {
	s.in.Close()
	done := make(chan struct{})
	go func() { s.cmd.Wait(); close(done) }()
	select {
	case <-done:
	case <-time.After(2 * time.Second):
		s.cmd.Process.Kill()
	}
}

var reValPair = regexp.MustCompile(`\(\s*(\(.*?\)|[^\s()]+)\s+(\(- \d+\)|-?\d+|true|false)\s*\)`)

// getInts evaluates integer/bool terms in the current model.
func (s *z3session) getVals(terms []string) ([]string, error) {
	var out []string
	for i := 0; i < len(terms); i += 64 {
		j := i + 64
		if j > len(terms) {
			j = len(terms)
		}
		s.send("(get-value (" + strings.Join(terms[i:j], " ") + "))")
		r, err := s.readSexp()
		if err != nil {
			return nil, err
		}
		if strings.HasPrefix(r, "(error") {
			return nil, fmt.Errorf("%s", r)
		}
		vals := parseValues(r, j-i)
		if len(vals) != j-i {
			return nil, fmt.Errorf("cannot parse get-value answer %q", r)
		}
		out = append(out, vals...)
	}
	return out, nil
}

// parseValues extracts the value of each (term value) pair in a get-value answer.
func parseValues(r string, n int) []string {
	// strip outer parens, then split top-level pairs
	r = strings.TrimSpace(r)
	if len(r) < 2 {
		return nil
	}
	r = r[1 : len(r)-1]
	var pairs []string
	depth, start := 0, -1
	for i, c := range r {
		switch c {
		case '(':
			if depth == 0 {
				start = i
			}
			depth++
		case ')':
			depth--
			if depth == 0 && start >= 0 {
				pairs = append(pairs, r[start:i+1])
				start = -1
			}
		}
	}
	var out []string
	for _, p := range pairs {
		// value = last top-level element of the pair
		p = strings.TrimSpace(p[1 : len(p)-1])
		d := 0
		last := 0
		for i := 0; i < len(p); i++ {
			switch p[i] {
			case '(':
				d++
			case ')':
				d--
			case ' ', '\n', '\t':
				if d == 0 {
					last = i + 1
				}
			}
		}
		v := strings.TrimSpace(p[last:])
		// the value may itself be "(- 5)": detect if p ends with ")" at depth 0
		if strings.HasSuffix(p, ")") {
			// find matching open paren of the trailing group
			d = 0
			for i := len(p) - 1; i >= 0; i-- {
				if p[i] == ')' {
					d++
				} else if p[i] == '(' {
					d--
					if d == 0 {
						v = p[i:]
						break
					}
				}
			}
		}
		out = append(out, v)
	}
	return out
}

func modelInt(v string) (*big.Int, bool) {
	v = strings.TrimSpace(v)
	if strings.HasPrefix(v, "(-") {
		n, ok := new(big.Int).SetString(strings.TrimSpace(strings.Trim(v[2:], " )")), 10)
		if !ok {
			return nil, false
		}
		return n.Neg(n), true
	}
	n, ok := new(big.Int).SetString(v, 10)
	return n, ok
}

// goValue renders the model's value of sv as Go source of type T. ok=false when unsupported.
type valueGen struct {
	s     *z3session
	mem0  string // $M0_uint8
	decls []string
	n     int
	notes []string
	// pins: equalities fixing the input (parameters and the bytes they view) to the replayed values
	pinning bool
	pins    []string
}

func (g *valueGen) intOf(term string) (*big.Int, error) {
	vs, err := g.s.getVals([]string{term})
	if err != nil {
		return nil, err
	}
	n, ok := modelInt(vs[0])
	if !ok {
		return nil, fmt.Errorf("non-integer model value %q for %s", vs[0], term)
	}
	if g.pinning {
		g.pins = append(g.pins, eq(term, lit(n)))
	}
	return n, nil
}

func (g *valueGen) bytesOf(obj, off, ln string) ([]byte, bool, error) {
	o, err := g.intOf(obj)
	if err != nil {
		return nil, false, err
	}
	l, err := g.intOf(ln)
	if err != nil {
		return nil, false, err
	}
	if o.Sign() == 0 {
		return nil, true, nil
	}
	if !l.IsInt64() || l.Int64() > 1<<16 {
		return nil, false, fmt.Errorf("model length %s too large to replay", l)
	}
	n := int(l.Int64())
	var terms []string
	for i := 0; i < n; i++ {
		terms = append(terms, fmt.Sprintf("(select (select %s %s) (+ %s %d))", g.mem0, obj, off, i))
	}
	out := make([]byte, n)
	if n > 0 {
		vs, err := g.s.getVals(terms)
		if err != nil {
			return nil, false, err
		}
		for i, v := range vs {
			x, ok := modelInt(v)
			if !ok {
				return nil, false, fmt.Errorf("bad byte value %q", v)
			}
			out[i] = byte(x.Int64())
			if g.pinning {
				g.pins = append(g.pins, eq(terms[i], lit(x)))
			}
		}
	}
	return out, false, nil
}

func byteLit(b []byte) string {
	var sb strings.Builder
	sb.WriteString("[]byte{")
	for i, x := range b {
		if i > 0 {
			sb.WriteString(", ")
		}
		fmt.Fprintf(&sb, "%d", x)
	}
	sb.WriteString("}")
	return sb.String()
}

func qualifier(pkgPath string) types.Qualifier {
	return func(p *types.Package) string {
		if p.Path() == pkgPath {
			return ""
		}
		return p.Name()
	}
}

// gen emits statements that build a variable holding sv's model value; returns the variable name.
func (g *valueGen) gen(sv SVal, T types.Type, pkgPath string, imports map[string]string) (string, error) {
	g.n++
	name := fmt.Sprintf("v%d", g.n)
	// a named type that the replay package cannot name (unexported, other package) is built
	// through its underlying type; verifSet converts when storing into the field
	if nt, ok := T.(*types.Named); ok && nt.Obj().Pkg() != nil && nt.Obj().Pkg().Path() != pkgPath && !nt.Obj().Exported() {
		if _, isSt := nt.Underlying().(*types.Struct); !isSt {
			T = nt.Underlying()
		}
	}
	ts := types.TypeString(T, func(p *types.Package) string {
		if p.Path() == pkgPath {
			return ""
		}
		imports[p.Path()] = p.Name()
		return p.Name()
	})
	switch sv.K {
	case KInt:
		n, err := g.intOf(sv.S)
		if err != nil {
			return "", err
		}
		g.decls = append(g.decls, fmt.Sprintf("var %s %s = %s(%s)", name, ts, ts, n.String()))
		return name, nil
	case KBool:
		vs, err := g.s.getVals([]string{sv.S})
		if err != nil {
			return "", err
		}
		g.decls = append(g.decls, fmt.Sprintf("var %s %s = %s", name, ts, vs[0]))
		if g.pinning {
			g.pins = append(g.pins, eq(sv.S, vs[0]))
		}
		return name, nil
	case KSlice:
		sl, ok := T.Underlying().(*types.Slice)
		if !ok {
			return "", fmt.Errorf("unsupported slice type %s", ts)
		}
		if st, isSt := sl.Elem().Underlying().(*types.Struct); isSt {
			// slice of flat structs with integer fields: read each field memory
			o, err := g.intOf(sv.obj())
			if err != nil {
				return "", err
			}
			l, err := g.intOf(sv.ln())
			if err != nil {
				return "", err
			}
			if o.Sign() == 0 {
				g.decls = append(g.decls, fmt.Sprintf("var %s %s = nil", name, ts))
				return name, nil
			}
			if !l.IsInt64() || l.Int64() > 4096 {
				return "", fmt.Errorf("model length %s too large to replay", l)
			}
			es := types.TypeString(sl.Elem(), func(p *types.Package) string {
				if p.Path() == pkgPath {
					return ""
				}
				imports[p.Path()] = p.Name()
				return p.Name()
			})
			var elems []string
			for i := int64(0); i < l.Int64(); i++ {
				var fs []string
				for f := 0; f < st.NumFields(); f++ {
					fld := st.Field(f)
					if b, ok := fld.Type().Underlying().(*types.Basic); !ok || b.Info()&types.IsInteger == 0 {
						return "", fmt.Errorf("replay of %s parameters is not supported", ts)
					}
					memName := "$M0_" + sanitize(typeKey(sl.Elem())+"."+fld.Name())
					v, err := g.intOf(fmt.Sprintf("(select (select %s %s) (+ %s %d))", memName, sv.obj(), sv.off(), i))
					if err != nil {
						return "", err
					}
					fs = append(fs, fmt.Sprintf("%s: %s", fld.Name(), v.String()))
				}
				elems = append(elems, "{"+strings.Join(fs, ", ")+"}")
			}
			g.decls = append(g.decls, fmt.Sprintf("var %s %s = []%s{%s}", name, ts, es, strings.Join(elems, ", ")))
			g.notes = append(g.notes, fmt.Sprintf("%s = {%s}", name, strings.Join(elems, ", ")))
			return name, nil
		}
		if b, ok := sl.Elem().Underlying().(*types.Basic); !ok || b.Kind() != types.Uint8 {
			return "", fmt.Errorf("replay of %s parameters is not supported", ts)
		}
		bs, isNil, err := g.bytesOf(sv.obj(), sv.off(), sv.ln())
		if err != nil {
			return "", err
		}
		if isNil {
			g.decls = append(g.decls, fmt.Sprintf("var %s %s = nil", name, ts))
		} else {
			g.decls = append(g.decls, fmt.Sprintf("var %s %s = %s(verifGuarded(%s))", name, ts, ts, byteLit(bs)))
		}
		g.notes = append(g.notes, fmt.Sprintf("%s = %v", name, bs))
		return name, nil
	case KString:
		bs, _, err := g.bytesOf(sv.obj(), sv.off(), sv.ln())
		if err != nil {
			return "", err
		}
		g.decls = append(g.decls, fmt.Sprintf("var %s %s = %s(string(%s))", name, ts, ts, byteLit(bs)))
		return name, nil
	case KStruct:
		st := T.Underlying().(*types.Struct)
		g.decls = append(g.decls, fmt.Sprintf("var %s %s", name, ts))
		for i := 0; i < st.NumFields(); i++ {
			fv, err := g.gen(sv.F[i], st.Field(i).Type(), pkgPath, imports)
			if err != nil {
				return "", err
			}
			g.decls = append(g.decls, fmt.Sprintf("verifSet(&%s, %d, %s)", name, i, fv))
		}
		return name, nil
	case KArr:
		arr, ok := T.Underlying().(*types.Array)
		if !ok || flatLen(T) > 64 {
			return "", fmt.Errorf("unsupported array type %s", ts)
		}
		_ = arr
		return "", fmt.Errorf("replay of array parameters is not supported")
	}
	return "", fmt.Errorf("replay of %s parameters is not supported", ts)
}

const replayHelpers = `
func verifGuarded(b []byte) []byte {
	// place b at the end of a page that is followed by an inaccessible page
	ps := syscall.Getpagesize()
	n := (len(b) + ps - 1) / ps * ps
	if n == 0 {
		n = ps
	}
	m, err := syscall.Mmap(-1, 0, n+ps, syscall.PROT_READ|syscall.PROT_WRITE, syscall.MAP_ANON|syscall.MAP_PRIVATE)
	if err != nil {
		return b
	}
	syscall.Mprotect(m[n:], syscall.PROT_NONE)
	out := m[n-len(b) : n : n]
	copy(out, b)
	return out
}

func verifSet(p any, field int, v any) {
	f := reflect.ValueOf(p).Elem().Field(field)
	reflect.NewAt(f.Type(), unsafe.Pointer(f.UnsafeAddr())).Elem().Set(reflect.ValueOf(v).Convert(f.Type()))
}

func verifShow(i int, v any) {
	rv := reflect.ValueOf(v)
	if !rv.IsValid() {
		fmt.Printf("VERIF-REPLAY-RESULT %d nil\n", i)
		return
	}
	switch rv.Kind() {
	case reflect.Int, reflect.Int8, reflect.Int16, reflect.Int32, reflect.Int64:
		fmt.Printf("VERIF-REPLAY-RESULT %d int %d\n", i, rv.Int())
	case reflect.Uint, reflect.Uint8, reflect.Uint16, reflect.Uint32, reflect.Uint64, reflect.Uintptr:
		fmt.Printf("VERIF-REPLAY-RESULT %d int %d\n", i, rv.Uint())
	case reflect.Bool:
		fmt.Printf("VERIF-REPLAY-RESULT %d bool %v\n", i, rv.Bool())
	case reflect.String:
		fmt.Printf("VERIF-REPLAY-RESULT %d len %d %x\n", i, rv.Len(), rv.String())
	case reflect.Slice:
		if rv.Type().Elem().Kind() == reflect.Uint8 {
			fmt.Printf("VERIF-REPLAY-RESULT %d len %d %x\n", i, rv.Len(), rv.Bytes())
		} else {
			fmt.Printf("VERIF-REPLAY-RESULT %d len %d\n", i, rv.Len())
		}
	case reflect.Interface, reflect.Ptr:
		if rv.IsNil() {
			fmt.Printf("VERIF-REPLAY-RESULT %d nil\n", i)
		} else {
			fmt.Printf("VERIF-REPLAY-RESULT %d nonnil %v\n", i, v)
		}
	default:
		fmt.Printf("VERIF-REPLAY-RESULT %d other %v\n", i, v)
	}
}
`

func (e *Engine) replay(o *Oblig, all []*FuncResult, dir string, cfg solveCfg) replayResult {
	path := filepath.Join(dir, sanitize(o.Name)+".replay.txt")
	var log strings.Builder
	fmt.Fprintf(&log, "obligation: %s\nkind: %s\nclause: %s\nfunction: %s\nsolver verdict: %s (%s)\nsmt file: %s\n", o.Name, o.Kind, o.Desc, o.Func, o.Status, o.Solver, o.File)
	res := replayResult{Path: path}
	finish := func(note string) replayResult {
		fmt.Fprintf(&log, "\nreplay: %s\n", note)
		if !res.Confirmed {
			fmt.Fprintf(&log, "verdict: no-failing-input-found (the obligation is reported because it is no longer discharged)\n")
			if o.Model != "" {
				m := o.Model
				if len(m) > 4000 {
					m = m[:4000] + "\n...[truncated]"
				}
				fmt.Fprintf(&log, "\nsolver output:\n%s\n", m)
			}
		}
		os.WriteFile(path, []byte(log.String()), 0o644)
		return res
	}
	var fr *FuncResult
	for _, f := range all {
		if f.Fn == o.Func {
			fr = f
		}
	}
	if fr == nil || (o.Status != "refuted" && o.Kind != "noalloc") {
		return finish("no model available (verdict " + o.Status + ")")
	}
	fn := e.funcs[fr.Fn]
	if fn == nil || fn.Pkg == nil {
		return finish("function not found")
	}
	// interactive session to obtain one consistent model
	s, err := startZ3(cfg.timeoutSec)
	if err != nil {
		return finish("cannot start z3: " + err.Error())
	}
	defer s.close()
	// the same script prefix the obligation was checked against; the rest of the script is
	// needed only for the clause-on-real-outputs check further down
	spos := o.ScriptPos
	if spos > len(fr.Script) {
		spos = len(fr.Script)
	}
	// (model-search prelude: definitions instead of trigger axioms, so the solver can answer "sat")
	session := scriptHeader + e.modelPreludeFor(fr.Script+o.Guard+o.Goal) + fr.Script[:spos]
	if o.Kind == "noalloc" {
		// the input only has to reach a return under the clause's condition - the real run is the
		// judge - so the quantified assertions (range / frame axioms), which make the solver answer
		// "unknown", are left out when searching for it
		var kept []string
		for _, l := range strings.Split(session, "\n") {
			if strings.HasPrefix(l, "(assert ") && (strings.Contains(l, "(forall ") || strings.Contains(l, "(exists ")) {
				continue
			}
			kept = append(kept, l)
		}
		session = strings.Join(kept, "\n")
	}
	s.send(session)
	s.send("(push 1)")
	popLevels := 1
	if o.Kind == "noalloc" && o.GoalFree != "" {
		// any input on which the function returns under the clause's condition will do: the
		// allocation is measured on the real code, not predicted by the model
		s.send(fmt.Sprintf("(assert %s)\n(assert %s)", o.Guard, o.GoalFree))
	} else {
		s.send(fmt.Sprintf("(assert %s)\n(assert (not %s))", o.Guard, o.Goal))
	}
	// prefer small inputs
	var small []string
	var collect func(v SVal)
	collect = func(v SVal) {
		switch v.K {
		case KSlice, KString:
			small = append(small, le(v.ln(), "48"))
		case KStruct, KTuple:
			for _, f := range v.F {
				collect(f)
			}
		}
	}
	for _, p := range fr.ParamVals {
		collect(p)
	}
	s.send("(push 1)")
	if o.Kind == "noalloc" {
		// prefer an input on which something non-empty is returned (copying nothing allocates nothing)
		for _, r := range fr.ResultVals {
			if r.K == KSlice || r.K == KString {
				small = append(small, lt("2", r.ln()))
			}
		}
	}
	for _, c := range small {
		s.send("(assert " + c + ")")
	}
	popLevels++
	s.send("(check-sat)")
	ans, _ := s.readSexp()
	if ans != "sat" {
		s.send("(pop 1)")
		popLevels--
		s.send("(check-sat)")
		ans, _ = s.readSexp()
		if ans != "sat" {
			return finish("solver did not reproduce a model in the replay session: " + ans)
		}
	}
	g := &valueGen{s: s, mem0: "$M0_uint8"}
	imports := map[string]string{}
	var argNames []string
	g.pinning = true
	for i, p := range fr.ParamVals {
		n, err := g.gen(p, fn.Params[i].Type(), fr.PkgPath, imports)
		if err != nil {
			return finish("cannot build parameter " + fr.ParamNames[i] + ": " + err.Error())
		}
		argNames = append(argNames, n)
	}
	g.pinning = false
	// predicted results (scalars only)
	type pred struct {
		kind string
		val  string
	}
	var preds []pred
	for _, r := range fr.ResultVals {
		switch r.K {
		case KInt:
			n, err := g.intOf(r.S)
			if err == nil {
				preds = append(preds, pred{"int", n.String()})
				continue
			}
		case KBool:
			vs, err := s.getVals([]string{r.S})
			if err == nil {
				preds = append(preds, pred{"bool", vs[0]})
				continue
			}
		case KRef:
			n, err := g.intOf(r.S)
			if err == nil {
				if n.Sign() == 0 {
					preds = append(preds, pred{"nil", ""})
				} else {
					preds = append(preds, pred{"nonnil", ""})
				}
				continue
			}
		case KSlice, KString:
			n, err := g.intOf(r.ln())
			if err == nil {
				preds = append(preds, pred{"len", n.String()})
				continue
			}
		}
		preds = append(preds, pred{"?", ""})
	}
	// the call
	var call string
	nres := fn.Signature.Results().Len()
	var lhs []string
	for i := 0; i < nres; i++ {
		lhs = append(lhs, fmt.Sprintf("r%d", i))
	}
	if fr.HasRecv {
		recv := argNames[0]
		if fr.RecvPtr {
			return finish("replay of pointer-receiver methods needs a state driver (not generated)")
		}
		call = fmt.Sprintf("%s.%s(%s)", recv, fr.FnName, strings.Join(argNames[1:], ", "))
	} else {
		call = fmt.Sprintf("%s(%s)", fr.FnName, strings.Join(argNames, ", "))
	}
	bareCall := call
	if nres > 0 {
		call = strings.Join(lhs, ", ") + " := " + call
	}
	var src strings.Builder
	pkgName := fn.Pkg.Pkg.Name()
	fmt.Fprintf(&src, "package %s\n\nimport (\n\t\"fmt\"\n\t\"reflect\"\n\t\"runtime/debug\"\n\t\"syscall\"\n\t\"testing\"\n\t\"unsafe\"\n", pkgName)
	for p, n := range imports {
		fmt.Fprintf(&src, "\t%s %q\n", n, p)
	}
	fmt.Fprintf(&src, ")\n\nvar _ = unsafe.Pointer(nil)\nvar _ = reflect.ValueOf\n%s\n", replayHelpers)
	fmt.Fprintf(&src, "func TestVerifReplay(t *testing.T) {\n\tdebug.SetPanicOnFault(true)\n\tdefer func() {\n\t\tif r := recover(); r != nil {\n\t\t\tfmt.Printf(\"VERIF-REPLAY-PANIC %%v\\n\", r)\n\t\t}\n\t}()\n")
	for _, d := range g.decls {
		fmt.Fprintf(&src, "\t%s\n", d)
	}
	fmt.Fprintf(&src, "\t%s\n", call)
	for i := 0; i < nres; i++ {
		fmt.Fprintf(&src, "\tverifShow(%d, r%d)\n", i, i)
	}
	if o.Kind == "noalloc" {
		// allocation effect: measure the real function with the runtime's allocation counter
		fmt.Fprintf(&src, "\tfmt.Printf(\"VERIF-REPLAY-ALLOCS %%v\\n\", testing.AllocsPerRun(50, func() { %s }))\n", bareCall)
	}
	fmt.Fprintf(&src, "\tfmt.Println(\"VERIF-REPLAY-DONE\")\n}\n")
	testFile := filepath.Join(dir, sanitize(o.Name)+"_replay_test.go")
	// the harness's own imports are aliased so they cannot clash with package-level names
	text := src.String()
	text = strings.Replace(text, "\t\"fmt\"\n\t\"reflect\"\n\t\"runtime/debug\"\n\t\"syscall\"\n\t\"testing\"\n\t\"unsafe\"\n",
		"\tvrfmt \"fmt\"\n\tvrreflect \"reflect\"\n\tvrdebug \"runtime/debug\"\n\tvrsyscall \"syscall\"\n\tvrtesting \"testing\"\n\tvrunsafe \"unsafe\"\n", 1)
	text = reHarnessPkg.ReplaceAllString(text, "${1}vr$2.")
	os.WriteFile(testFile, []byte(text), 0o644)
	pkgDir := filepath.Dir(e.prog.Fset.Position(fn.Pos()).Filename)
	ov := map[string]any{"Replace": map[string]string{filepath.Join(pkgDir, "zz_verif_replay_test.go"): testFile}}
	ovb, _ := json.Marshal(ov)
	ovFile := filepath.Join(dir, sanitize(o.Name)+".overlay.json")
	os.WriteFile(ovFile, ovb, 0o644)
	fmt.Fprintf(&log, "\nmodel input: %s\nreplay test: %s\n", strings.Join(g.notes, "; "), testFile)
	ctx, cancel := context.WithTimeout(context.Background(), 120*time.Second)
	defer cancel()
	cmd := exec.CommandContext(ctx, "go", "test", "-overlay", ovFile, "-vet=off", "-v", "-count=1", "-timeout", "60s", "-run", "^TestVerifReplay$", fr.PkgPath)
	cmd.Dir = e.repo
	out, _ := cmd.CombinedOutput()
	fmt.Fprintf(&log, "command: (cd %s && go test -overlay %s -vet=off -count=1 -timeout 60s -run '^TestVerifReplay$' %s)\noutput:\n%s\n", e.repo, ovFile, fr.PkgPath, string(out))
	outs := string(out)
	panicked := strings.Contains(outs, "VERIF-REPLAY-PANIC") || strings.Contains(outs, "unexpected fault address") || strings.Contains(outs, "panic:")
	switch o.Kind {
	case "index", "slice", "nil", "unsafe-read", "div", "panic", "type-assert", "requires":
		if panicked {
			res.Confirmed = true
			return finish("CONFIRMED: the real function panics on the model input")
		}
		return finish("the real function did not panic on the model input")
	case "noalloc":
		if panicked || !strings.Contains(outs, "VERIF-REPLAY-DONE") {
			return finish("replay test did not run to completion")
		}
		var allocs float64
		for _, l := range strings.Split(outs, "\n") {
			if strings.HasPrefix(l, "VERIF-REPLAY-ALLOCS ") {
				fmt.Sscanf(strings.TrimPrefix(l, "VERIF-REPLAY-ALLOCS "), "%g", &allocs)
			}
		}
		// the clause's condition must hold on the real run: only the plain condition "no error
		// returned" can be observed from outside
		if !strings.HasSuffix(o.Desc, "when noerr") {
			return finish(fmt.Sprintf("measured %.1f allocations per call, but the clause's condition (%s) is not observable from the outputs", allocs, o.Desc))
		}
		if nres > 0 && types.TypeString(fn.Signature.Results().At(nres-1).Type(), nil) == "error" {
			last := ""
			for _, l := range strings.Split(outs, "\n") {
				if strings.HasPrefix(l, fmt.Sprintf("VERIF-REPLAY-RESULT %d ", nres-1)) {
					last = strings.TrimPrefix(l, fmt.Sprintf("VERIF-REPLAY-RESULT %d ", nres-1))
				}
			}
			if !strings.HasPrefix(last, "nil") {
				return finish(fmt.Sprintf("the real function returned an error on the model input (%.1f allocations per call are allowed then)", allocs))
			}
		}
		if allocs > 0 {
			res.Confirmed = true
			return finish(fmt.Sprintf("CONFIRMED: testing.AllocsPerRun measures %.1f heap allocations per call of the real function on the model input, which returns without error", allocs))
		}
		return finish("testing.AllocsPerRun measures 0 allocations on the model input")
	case "ensures", "overflow":
		if panicked {
			res.Confirmed = true
			return finish("CONFIRMED: the real function panics on the model input")
		}
		if !strings.Contains(outs, "VERIF-REPLAY-DONE") {
			return finish("replay test did not run to completion")
		}
		// compare the real outputs with the model's prediction
		match := true
		for i, p := range preds {
			var line string
			for _, l := range strings.Split(outs, "\n") {
				if strings.HasPrefix(l, fmt.Sprintf("VERIF-REPLAY-RESULT %d ", i)) {
					line = strings.TrimPrefix(l, fmt.Sprintf("VERIF-REPLAY-RESULT %d ", i))
				}
			}
			f := strings.Fields(line)
			if len(f) == 0 {
				match = false
				continue
			}
			switch p.kind {
			case "int", "bool", "len":
				if f[0] != p.kind || len(f) < 2 || f[1] != p.val {
					match = false
				}
			case "nil":
				if f[0] != "nil" {
					match = false
				}
			case "nonnil":
				if f[0] != "nonnil" {
					match = false
				}
			}
			fmt.Fprintf(&log, "result %d: model predicts %s %s; real code: %s\n", i, p.kind, p.val, line)
		}
		if o.Kind == "overflow" {
			if !match {
				res.Confirmed = true
				return finish("CONFIRMED: on the model input the real function's result differs from the result computed with mathematical integers, i.e. the signed arithmetic wrapped around")
			}
			return finish("the real outputs equal the mathematical ones on the model input (the wrapped value did not reach an output)")
		}
		if match {
			res.Confirmed = true
			return finish("CONFIRMED: on the model input the real function returns exactly the outputs the model predicts, and those outputs falsify the clause")
		}
		// the model is not a faithful execution (e.g. a wrapped overflow): let the solver judge the
		// clause on the REAL outputs, with the input pinned to the replayed values
		if o.GoalFree != "" && len(fr.FreeResults) == len(preds) {
			var pinsOut []string
			ok := true
			for i, r := range fr.FreeResults {
				var line string
				for _, l := range strings.Split(outs, "\n") {
					if strings.HasPrefix(l, fmt.Sprintf("VERIF-REPLAY-RESULT %d ", i)) {
						line = strings.TrimPrefix(l, fmt.Sprintf("VERIF-REPLAY-RESULT %d ", i))
					}
				}
				f := strings.Fields(line)
				switch {
				case len(f) >= 2 && f[0] == "int" && r.K == KInt:
					n, good := new(big.Int).SetString(f[1], 10)
					if !good {
						ok = false
						break
					}
					pinsOut = append(pinsOut, eq(r.S, lit(n)))
				case len(f) >= 2 && f[0] == "bool" && r.K == KBool:
					pinsOut = append(pinsOut, eq(r.S, f[1]))
				case len(f) >= 1 && f[0] == "nil" && r.K == KRef:
					pinsOut = append(pinsOut, eq(r.S, "0"))
				case len(f) >= 1 && f[0] == "nonnil" && r.K == KRef:
					pinsOut = append(pinsOut, lt("0", r.S))
				default:
					ok = false
				}
			}
			if ok {
				// back to the bare script prefix, then the rest of the script (it declares the free
				// result constants); the obligation's own negation is no longer asserted
				s.send(fmt.Sprintf("(pop %d)", popLevels))
				s.send(fr.Script[spos:])
				s.send("(push 1)")
				for _, p := range g.pins {
					s.send("(assert " + p + ")")
				}
				for _, p := range pinsOut {
					s.send("(assert " + p + ")")
				}
				s.send("(assert (not " + o.GoalFree + "))")
				s.send("(check-sat)")
				a1, _ := s.readSexp()
				s.send("(pop 1)")
				s.send("(push 1)")
				for _, p := range g.pins {
					s.send("(assert " + p + ")")
				}
				for _, p := range pinsOut {
					s.send("(assert " + p + ")")
				}
				s.send("(assert " + o.GoalFree + ")")
				s.send("(check-sat)")
				a2, _ := s.readSexp()
				s.send("(pop 1)")
				fmt.Fprintf(&log, "solver check of the clause on the real outputs: not-clause is %s, clause is %s\n", a1, a2)
				if a1 == "sat" && a2 == "unsat" {
					res.Confirmed = true
					return finish("CONFIRMED: the real function's outputs on the replayed input falsify the clause (decided by the solver on the concrete values; the symbolic model itself is not a faithful execution here, e.g. because an overflow obligation fails)")
				}
			}
		}
		return finish("real outputs differ from the model's prediction (encoding imprecision?)")
	}
	return finish("no replay for obligation kind " + o.Kind)
}
