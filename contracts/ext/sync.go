//go:build verif

// ASSUMED contracts for sync and sync/atomic. Every proof is about one call executing alone, but
// atomics are shared by design: a Load returns an ARBITRARY value (any interference by other
// goroutines is allowed). Ghost cells record what this call observed and did:
//   ghost(lastLoad, x)  value returned by the last Load      ghost(nAdd, x)  number of Adds
//   ghost(lastAdd, x)   delta of the last Add                ghost(lastStore, x) last stored value
package ext

//@ package sync

//@ func (*Mutex).Lock
//@   trusted
//@ func (*Mutex).Unlock
//@   trusted
//@ func (*RWMutex).Lock
//@   trusted
//@ func (*RWMutex).Unlock
//@   trusted
//@ func (*RWMutex).RLock
//@   trusted
//@ func (*RWMutex).RUnlock
//@   trusted

//@ package sync/atomic

//@ func (*Int32).Load
//@   trusted
//@   modifies ghost.lastLoad at x
//@   ensures ghost(lastLoad, x) == result

//@ func (*Int32).Add
//@   trusted
//@   modifies ghost.nAdd at x
//@   modifies ghost.lastAdd at x
//@   modifies ghost.sumAdd at x
//@   modifies ghost.lastRes at x
//@   ensures ghost(nAdd, x) == old(ghost(nAdd, x)) + 1 && ghost(lastAdd, x) == delta
//@   ensures ghost(sumAdd, x) == old(ghost(sumAdd, x)) + delta && ghost(lastRes, x) == result

//@ func (*Int32).Store
//@   trusted
//@   modifies ghost.lastStore at x
//@   modifies ghost.nStore at x
//@   ensures ghost(lastStore, x) == val && ghost(nStore, x) == old(ghost(nStore, x)) + 1

//@ func (*Int32).CompareAndSwap
//@   trusted

//@ func (*Bool).Load
//@   trusted

//@ func (*Bool).Store
//@   trusted
//@   modifies ghost.lastStoreB at x
//@   ensures (ghost(lastStoreB, x) == 1) <==> val

//@ func (*Bool).CompareAndSwap
//@   trusted

// atomic.Pointer: Load returns whatever was stored last by anyone: arbitrary, non-nil where the
// owner stores a non-nil value at construction and ever after (stated by the callers' contracts)
//@ func (*Pointer).Load
//@   trusted
//@   ensures obj(result) == ghost(ptrObj, x) && off(result) == 0
//@ func (*Pointer).Store
//@   trusted
//@ func (*Pointer).Swap
//@   trusted
