//go:build verif

// ASSUMED contract of the buffer.Buffer interface (baselibrary). Ghost state per buffer r:
//   blen(r)  number of bytes written          bobj(r)  object holding them (bytes at offset 0)
// Grow returns the n bytes after the old content; the old content is preserved (possibly in a
// fresh object); the NEW bytes are UNSPECIFIED - exactly what the interface documents - so an
// encoder that leaves one of them unwritten cannot meet its postcondition.
package ext

//@ package github.com/basecomplextech/baselibrary/buffer

//@ iface Buffer.Len
//@   ensures result == blen(recv) && result >= 0

//@ iface Buffer.Bytes
//@   ensures obj(result) == bobj(recv) && off(result) == 0 && len(result) == blen(recv)

//@ iface Buffer.Grow
//@   requires n >= 0
//@   allocates O
//@   modifies buffer.len at recv
//@   modifies buffer.obj at recv
//@   modifies uint8 at O
//@   ensures blen(recv) == old(blen(recv)) + n && old(blen(recv)) >= 0
//@   ensures bobj(recv) == old(bobj(recv)) || bobj(recv) == O
//@   ensures obj(result) == bobj(recv) && off(result) == old(blen(recv)) && len(result) == n && cap(result) >= n
//@   ensures bobj(recv) == O ==> (forall i :: 0 <= i && i < old(blen(recv)) ==> bytesOf(O)[i] == old(bytesOf(bobj(recv)))[i])

//@ iface Buffer.Reset
//@   modifies buffer.len at recv
//@   ensures blen(recv) == 0

//@ func New
//@   trusted
//@   ensures result != nil && blen(result) == 0

//@ iface Buffer.Write
//@   modifies buffer.*
//@   modifies uint8
//@   ensures blen(recv) == old(blen(recv)) + len(p) && bobj(recv) > 0

//@ iface Buffer.Free
