package main

// Contract expression language: lexer, parser, AST.
//
//   expr  := ('forall'|'exists') x [T] {',' y [T]} '::' expr | impl
//   impl  := or ['==>' impl] | or ['<==>' or]
//   or    := and {'||' and}
//   and   := cmp {'&&' cmp}
//   cmp   := add [('=='|'!='|'<'|'<='|'>'|'>=') add]
//   add   := mul {('+'|'-') mul}
//   mul   := unary {('*'|'/'|'%') unary}
//   unary := ('!'|'-') unary | post
//   post  := prim { '.' id | '[' e ']' | '[' [e] ':' [e] ']' | '(' args ')' }
//   prim  := int | id | '(' expr ')' | 'old' '(' expr ')' | 'nil' | 'true' | 'false'

import (
	"fmt"
	"strings"
	"unicode"
)

type Expr interface{ String() string }

type (
	EInt   struct{ V string }
	EIdent struct{ Name string }
	EBin   struct {
		Op   string
		L, R Expr
	}
	EUn struct {
		Op string
		X  Expr
	}
	ECall struct {
		Fn   string
		Args []Expr
	}
	EField struct {
		X    Expr
		Name string
	}
	EIndex struct{ X, I Expr }
	ESlice struct{ X, Lo, Hi Expr }
	EOld   struct{ X Expr }
	EQuant struct {
		Forall bool
		Vars   []string
		Body   Expr
	}
)

type EStr struct{ V string }

func (e *EStr) String() string   { return "\"" + e.V + "\"" }
func (e *EInt) String() string   { return e.V }
func (e *EIdent) String() string { return e.Name }
func (e *EBin) String() string   { return "(" + e.L.String() + " " + e.Op + " " + e.R.String() + ")" }
func (e *EUn) String() string    { return e.Op + e.X.String() }
func (e *ECall) String() string {
	var a []string
	for _, x := range e.Args {
		a = append(a, x.String())
	}
	return e.Fn + "(" + strings.Join(a, ", ") + ")"
}
func (e *EField) String() string { return e.X.String() + "." + e.Name }
func (e *EIndex) String() string { return e.X.String() + "[" + e.I.String() + "]" }
func (e *ESlice) String() string {
	lo, hi := "", ""
	if e.Lo != nil {
		lo = e.Lo.String()
	}
	if e.Hi != nil {
		hi = e.Hi.String()
	}
	return e.X.String() + "[" + lo + ":" + hi + "]"
}
func (e *EOld) String() string { return "old(" + e.X.String() + ")" }
func (e *EQuant) String() string {
	q := "exists"
	if e.Forall {
		q = "forall"
	}
	return "(" + q + " " + strings.Join(e.Vars, ", ") + " :: " + e.Body.String() + ")"
}

type etok struct {
	kind string // "int","id","op","eof"
	text string
}

func lexExpr(s string) ([]etok, error) {
	var toks []etok
	i := 0
	for i < len(s) {
		c := s[i]
		switch {
		case c == ' ' || c == '\t':
			i++
		case unicode.IsDigit(rune(c)):
			j := i
			if c == '0' && i+1 < len(s) && (s[i+1] == 'x' || s[i+1] == 'X') {
				j = i + 2
				for j < len(s) && strings.ContainsRune("0123456789abcdefABCDEF_", rune(s[j])) {
					j++
				}
			} else {
				for j < len(s) && (unicode.IsDigit(rune(s[j])) || s[j] == '_') {
					j++
				}
			}
			toks = append(toks, etok{"int", strings.ReplaceAll(s[i:j], "_", "")})
			i = j
		case c == '"':
			j := i + 1
			for j < len(s) && s[j] != '"' {
				if s[j] == '\\' {
					j++ // escaped character
				}
				j++
			}
			if j >= len(s) {
				return nil, fmt.Errorf("unterminated string literal in %q", s)
			}
			toks = append(toks, etok{"str", strings.NewReplacer(`\n`, "\n", `\t`, "\t", `\"`, `"`, `\\`, `\`).Replace(s[i+1 : j])})
			i = j + 1
		case unicode.IsLetter(rune(c)) || c == '_' || c == '$':
			j := i
			for j < len(s) && (unicode.IsLetter(rune(s[j])) || unicode.IsDigit(rune(s[j])) || s[j] == '_' || s[j] == '$') {
				j++
			}
			toks = append(toks, etok{"id", s[i:j]})
			i = j
		default:
			ops := []string{"<==>", "==>", "::", "==", "!=", "<=", ">=", "&&", "||", "<<", ">>", "<", ">", "+", "-", "*", "/", "%", "!", "(", ")", "[", "]", ".", ",", ":"}
			found := false
			for _, op := range ops {
				if strings.HasPrefix(s[i:], op) {
					toks = append(toks, etok{"op", op})
					i += len(op)
					found = true
					break
				}
			}
			if !found {
				return nil, fmt.Errorf("unexpected character %q in %q", c, s)
			}
		}
	}
	toks = append(toks, etok{"eof", ""})
	return toks, nil
}

type eparser struct {
	toks []etok
	pos  int
	src  string
}

func parseExpr(s string) (e Expr, err error) {
	toks, err := lexExpr(s)
	if err != nil {
		return nil, err
	}
	p := &eparser{toks: toks, src: s}
	defer func() {
		if r := recover(); r != nil {
			if pe, ok := r.(parseErr); ok {
				err = fmt.Errorf("%s in %q", string(pe), s)
				return
			}
			panic(r)
		}
	}()
	e = p.expr()
	if p.peek().kind != "eof" {
		p.fail("trailing input at %q", p.peek().text)
	}
	return e, nil
}

type parseErr string

func (p *eparser) fail(f string, a ...any) { panic(parseErr(fmt.Sprintf(f, a...))) }
func (p *eparser) peek() etok             { return p.toks[p.pos] }
func (p *eparser) next() etok             { t := p.toks[p.pos]; p.pos++; return t }
func (p *eparser) isOp(op string) bool     { t := p.peek(); return t.kind == "op" && t.text == op }
func (p *eparser) accept(op string) bool {
	if p.isOp(op) {
		p.pos++
		return true
	}
	return false
}
func (p *eparser) expect(op string) {
	if !p.accept(op) {
		p.fail("expected %q, got %q", op, p.peek().text)
	}
}

func (p *eparser) expr() Expr {
	t := p.peek()
	if t.kind == "id" && (t.text == "forall" || t.text == "exists") {
		p.next()
		var vars []string
		for {
			v := p.next()
			if v.kind != "id" {
				p.fail("expected bound variable")
			}
			vars = append(vars, v.text)
			// optional type name
			if p.peek().kind == "id" {
				p.next()
			}
			if !p.accept(",") {
				break
			}
		}
		p.expect("::")
		body := p.expr()
		return &EQuant{Forall: t.text == "forall", Vars: vars, Body: body}
	}
	return p.impl()
}

func (p *eparser) impl() Expr {
	l := p.or()
	if p.accept("==>") {
		// the right side may itself be a quantifier
		r := p.expr()
		return &EBin{"==>", l, r}
	}
	if p.accept("<==>") {
		r := p.expr()
		return &EBin{"<==>", l, r}
	}
	return l
}

func (p *eparser) or() Expr {
	l := p.and()
	for p.accept("||") {
		l = &EBin{"||", l, p.and()}
	}
	return l
}

func (p *eparser) and() Expr {
	l := p.cmp()
	for p.accept("&&") {
		l = &EBin{"&&", l, p.cmp()}
	}
	return l
}

func (p *eparser) cmp() Expr {
	l := p.add()
	for _, op := range []string{"==", "!=", "<=", ">=", "<", ">"} {
		if p.accept(op) {
			return &EBin{op, l, p.add()}
		}
	}
	return l
}

func (p *eparser) add() Expr {
	l := p.mul()
	for {
		switch {
		case p.accept("+"):
			l = &EBin{"+", l, p.mul()}
		case p.accept("-"):
			l = &EBin{"-", l, p.mul()}
		default:
			return l
		}
	}
}

func (p *eparser) mul() Expr {
	l := p.unary()
	for {
		switch {
		case p.accept("*"):
			l = &EBin{"*", l, p.unary()}
		case p.accept("/"):
			l = &EBin{"/", l, p.unary()}
		case p.accept("%"):
			l = &EBin{"%", l, p.unary()}
		default:
			return l
		}
	}
}

func (p *eparser) unary() Expr {
	if p.accept("!") {
		return &EUn{"!", p.unary()}
	}
	if p.accept("-") {
		return &EUn{"-", p.unary()}
	}
	return p.post()
}

func (p *eparser) post() Expr {
	x := p.prim()
	for {
		switch {
		case p.accept("."):
			t := p.next()
			if t.kind != "id" {
				p.fail("expected field name")
			}
			x = &EField{x, t.text}
		case p.accept("["):
			var lo, hi Expr
			if p.accept(":") {
				if !p.isOp("]") {
					hi = p.expr()
				}
				p.expect("]")
				x = &ESlice{x, nil, hi}
				continue
			}
			lo = p.expr()
			if p.accept(":") {
				if !p.isOp("]") {
					hi = p.expr()
				}
				p.expect("]")
				x = &ESlice{x, lo, hi}
				continue
			}
			p.expect("]")
			x = &EIndex{x, lo}
		case p.isOp("("):
			id, ok := x.(*EIdent)
			if !ok {
				p.fail("call of non-identifier")
			}
			p.next()
			var args []Expr
			if !p.isOp(")") {
				for {
					args = append(args, p.expr())
					if !p.accept(",") {
						break
					}
				}
			}
			p.expect(")")
			if id.Name == "old" {
				if len(args) != 1 {
					p.fail("old takes one argument")
				}
				x = &EOld{args[0]}
			} else {
				x = &ECall{id.Name, args}
			}
		default:
			return x
		}
	}
}

func (p *eparser) prim() Expr {
	t := p.next()
	switch t.kind {
	case "int":
		return &EInt{t.text}
	case "str":
		return &EStr{t.text}
	case "id":
		return &EIdent{t.text}
	case "op":
		if t.text == "(" {
			e := p.expr()
			p.expect(")")
			return e
		}
	}
	p.fail("unexpected token %q", t.text)
	return nil
}
