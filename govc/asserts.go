package main

import (
	"fmt"
	"sort"

	"golang.org/x/tools/go/ssa"
)

// assertsAfter handles `assert after <var>: e` clauses: the first time local variable <var>
// is bound (its first DebugRef in program order), e becomes an obligation and then a fact.
// Names in e are resolved to the local variables whose definitions dominate this point.
func (vc *VC) assertsAfter(d *ssa.DebugRef) {
	if vc.con == nil || len(vc.con.Asserts) == 0 || d.IsAddr || d.Object() == nil {
		return
	}
	name := vc.eng.rn(vc.selfKey(), d.Object().Name())
	for _, c := range vc.con.Asserts {
		if c.After != name {
			continue
		}
		key := fmt.Sprintf("%d", c.Ord)
		if vc.assertDone[key] {
			continue
		}
		if _, bound := vc.vals[d.X]; !bound {
			continue // declarations bound to a constant (var x T) are skipped: the first computed binding counts
		}
		vc.assertDone[key] = true
		env := vc.pointEnv(d)
		R := vc.R[vc.cur]
		goal := vc.evalBool(c.E, env)
		cv := vc.oblige("cover", R, "false", d.Pos(), "cover: the point of assert "+fmt.Sprint(c.Ord)+" is reachable")
		cv.Cover = true
		cv.Name = fmt.Sprintf("%s#cover.assert.%d", vc.fname(), c.Ord)
		cv.Tags = c.Tags
		o := vc.oblige("assert", R, goal, d.Pos(), c.Text)
		o.Name = fmt.Sprintf("%s#assert.%d", vc.fname(), c.Ord)
		o.Tags = c.Tags
		vc.fact(R, goal)
	}
}

// pointEnv: parameters, lets and every named local whose binding dominates instruction at.
func (vc *VC) pointEnv(at *ssa.DebugRef) *Env {
	env := &Env{vc: vc, vars: map[string]SVal{}, mem: vc.curMem, old: &Env{vc: vc, vars: map[string]SVal{}, mem: vc.mem0}}
	for k, v := range vc.params {
		env.vars[k] = v
		env.old.vars[k] = v
	}
	for k, v := range vc.lets {
		env.vars[k] = v
		env.old.vars[k] = v
	}
	blk := at.Block()
	atIdx := -1
	for i, ins := range blk.Instrs {
		if ins == at {
			atIdx = i
		}
	}
	for name, bs := range vc.debug {
		for _, db := range bs {
			ok := (db.blk == blk && db.idx <= atIdx) || (db.blk != blk && db.blk.Dominates(blk))
			if !ok {
				continue
			}
			if v, has := vc.vals[db.val]; has {
				env.vars[name] = v
			} else if c, isC := db.val.(*ssa.Const); isC {
				env.vars[name] = vc.constVal(c)
			}
		}
	}
	return env
}

// assertsAtSelect handles `assert at select <k>: e` clauses: e becomes an obligation (and then a
// fact) just before the k-th select statement of the function (source order).
func (vc *VC) assertsAtSelect(x *ssa.Select) {
	if vc.con == nil || len(vc.con.Asserts) == 0 {
		return
	}
	if vc.selectOrd == nil {
		vc.selectOrd = map[*ssa.Select]int{}
		var sels []*ssa.Select
		for _, b := range vc.fn.Blocks {
			for _, ins := range b.Instrs {
				if s, ok := ins.(*ssa.Select); ok {
					sels = append(sels, s)
				}
			}
		}
		sort.Slice(sels, func(i, j int) bool { return sels[i].Pos() < sels[j].Pos() })
		for i, s := range sels {
			vc.selectOrd[s] = i + 1
		}
	}
	anchor := fmt.Sprintf("select:%d", vc.selectOrd[x])
	for _, c := range vc.con.Asserts {
		if c.After != anchor {
			continue
		}
		env := vc.pointEnvAt(x.Block(), x)
		R := vc.R[vc.cur]
		goal := vc.evalBool(c.E, env)
		cv := vc.oblige("cover", R, "false", x.Pos(), "cover: the point of assert "+fmt.Sprint(c.Ord)+" is reachable")
		cv.Cover = true
		cv.Name = fmt.Sprintf("%s#cover.assert.%d", vc.fname(), c.Ord)
		cv.Tags = c.Tags
		o := vc.oblige("assert", R, goal, x.Pos(), c.Text)
		o.Name = fmt.Sprintf("%s#assert.%d", vc.fname(), c.Ord)
		o.Tags = c.Tags
		vc.fact(R, goal)
	}
}

// pointEnvAt: like pointEnv, for an arbitrary instruction.
func (vc *VC) pointEnvAt(blk *ssa.BasicBlock, at ssa.Instruction) *Env {
	env := &Env{vc: vc, vars: map[string]SVal{}, mem: vc.curMem, old: &Env{vc: vc, vars: map[string]SVal{}, mem: vc.mem0}}
	for k, v := range vc.params {
		env.vars[k] = v
		env.old.vars[k] = v
	}
	for k, v := range vc.lets {
		env.vars[k] = v
		env.old.vars[k] = v
	}
	atIdx := -1
	for i, ins := range blk.Instrs {
		if ins == at {
			atIdx = i
		}
	}
	for name, bs := range vc.debug {
		for _, db := range bs {
			ok := (db.blk == blk && db.idx <= atIdx) || (db.blk != blk && db.blk.Dominates(blk))
			if !ok {
				continue
			}
			if v, has := vc.vals[db.val]; has {
				env.vars[name] = v
			} else if c, isC := db.val.(*ssa.Const); isC {
				env.vars[name] = vc.constVal(c)
			}
		}
	}
	return env
}
