//go:build verif

package ext

//@ package encoding/binary

//@ func (bigEndian).PutUint16
//@   safety[C08]
//@   requires len(b) >= 2
//@   modifies uint8 at b
//@   ensures[C08,C10,C01] be16(mem(b), lo(b)) == v && isByte(b[0]) && isByte(b[1])
//@   ensures forall j :: (j < lo(b) || j >= lo(b) + 2) ==> mem(b)[j] == old(mem(b))[j]
//@   noalloc[C17]

//@ func (bigEndian).PutUint32
//@   safety[C08]
//@   requires len(b) >= 4
//@   modifies uint8 at b
//@   ensures[C08,C10,C01] be32(mem(b), lo(b)) == v
//@   ensures forall j :: (j < lo(b) || j >= lo(b) + 4) ==> mem(b)[j] == old(mem(b))[j]
//@   noalloc[C17]

//@ func (bigEndian).PutUint64
//@   safety[C08]
//@   requires len(b) >= 8
//@   modifies uint8 at b
//@   ensures[C08,C10,C01] be64(mem(b), lo(b)) == v
//@   ensures forall j :: (j < lo(b) || j >= lo(b) + 8) ==> mem(b)[j] == old(mem(b))[j]
//@   noalloc[C17]
