package main

// Contract files: comment-only Go files (build tag verif) in /repo packages and
// /verif/contracts/ext for dependencies. Only lines starting with "//@" are read.
//
//   //@ package <import path>
//   //@ func Name | func (T).Name | func (*T).Name | iface T.Name
//   //@   safety[C02]                   safety obligations of this function count for these properties
//   //@   requires <expr>
//   //@   ensures[C02,C13] <expr>
//   //@   canary[C13] <expr>            a clause that must be REFUTED (vacuity / soundness guard)
//   //@   loop <k> invariant <expr>
//   //@   loop <k> modifies <key> at <expr>
//   //@   modifies <key> [at <expr>]
//   //@   trusted                       body is not verified; contract is assumed
//   //@   wrapping                      signed arithmetic wraps (no overflow obligations)
//   //@   let <name> = <expr>           abbreviation usable in later clauses (evaluated at entry)
//
// A line that starts with none of the keywords continues the previous clause.

import (
	"bufio"
	"fmt"
	"os"
	"path/filepath"
	"regexp"
	"sort"
	"strconv"
	"strings"
)

type Clause struct {
	Kind   string // requires, ensures, canary, invariant, lemma
	Tags   []string
	Text   string
	E      Expr
	Loop   int
	Ord    int // ordinal among clauses of same kind in the contract
	File   string
	LineNo int
	After  string // for assert clauses: the local variable after whose definition the assertion is placed
	Patterns []string // for preserves clauses: memory key patterns
}

type Modifies struct {
	Key  string
	At   string // expression text for object (may be empty = whole key)
	AtE  Expr
	Loop int // 0 = function level
	Fresh bool // loop clause 'modifies-fresh': only objects allocated by this call
}

type LetDef struct {
	Name string
	Text string
	E    Expr
}

type Contract struct {
	Key      string // SSA function string
	Pkg      string
	Name     string // as written
	IsIface  bool
	Safety   []string // property tags
	HasSafe  bool
	Requires []*Clause
	Ensures  []*Clause
	Canaries []*Clause
	Invs     []*Clause
	Asserts  []*Clause
	Allocs   []string // names of fresh object ids the callee may allocate (usable in ensures / modifies)
	Resets   []ResetSpec
	Retains  []string
	Preserves []*Clause
	NoAlloc  []*Clause
	Mods     []Modifies
	Lets     []LetDef
	Trusted  bool
	ThoroughOnly bool
	Wrapping bool
	NoBody   bool
	File     string
	Ext      bool // contract lives outside /repo (dependency)
	Ghost    []string
	Decr     map[int]string
}

var reHead = regexp.MustCompile(`^(func|iface)\s+(.*)$`)
var reTagged = regexp.MustCompile(`^(safety|requires|ensures|canary|noalloc)(\[[A-Za-z0-9!, ]*\])?\s*(.*)$`)
var reAssert = regexp.MustCompile(`^assert(\[[A-Za-z0-9!, ]*\])?\s+after\s+([A-Za-z_][A-Za-z0-9_]*)\s*:\s*(.*)$`)
type ResetSpec struct {
	Param string
	Tags  []string
}

var rePreserves = regexp.MustCompile(`^preserves(\[[A-Za-z0-9!, ]*\])?\s+(.*)$`)
var reResets =regexp.MustCompile(`^resets(\[[A-Za-z0-9!, ]*\])?\s+([A-Za-z_][A-Za-z0-9_]*)\s*$`)
var reAssertSel =regexp.MustCompile(`^assert(\[[A-Za-z0-9!, ]*\])?\s+at\s+select\s+(\d+)\s*:\s*(.*)$`)
var reLoop = regexp.MustCompile(`^loop\s+(\d+)\s+(invariant|modifies-fresh|modifies|decreases)(\[[A-Za-z0-9!, ]*\])?\s+(.*)$`)

func parseTags(s string) []string {
	s = strings.Trim(s, "[]")
	var out []string
	for _, t := range strings.Split(s, ",") {
		t = strings.TrimSpace(t)
		if t != "" {
			out = append(out, t)
		}
	}
	return out
}

func funcKey(pkg, name string) string {
	// name forms: Name, (T).M, (*T).M
	if strings.HasPrefix(name, "(*") {
		i := strings.Index(name, ")")
		return "(*" + pkg + "." + name[2:i] + ")" + name[i+1:]
	}
	if strings.HasPrefix(name, "(") {
		i := strings.Index(name, ")")
		return "(" + pkg + "." + name[1:i] + ")" + name[i+1:]
	}
	return pkg + "." + name
}

type ContractSet struct {
	M      map[string]*Contract
	Files  []string
	Macros map[string]*Macro
	Groups map[string][]string
	GlobalFacts map[string][]*GlobalFact
}

type GlobalFact struct {
	Name string
	Text string
	E    Expr
}

type Macro struct {
	Name   string
	Params []string
	Text   string
	E      Expr
}

var reDefine = regexp.MustCompile(`^define\s+([A-Za-z_][A-Za-z0-9_]*)\s*\(([^)]*)\)\s*=\s*(.*)$`)

func loadContracts(files []string, repoRoot string) (*ContractSet, error) {
	cs := &ContractSet{M: map[string]*Contract{}}
	for _, f := range files {
		if err := cs.loadFile(f, !strings.HasPrefix(f, repoRoot+"/")); err != nil {
			return nil, err
		}
		cs.Files = append(cs.Files, f)
	}
	return cs, nil
}

func findContractFiles(repoRoot, extDir string) []string {
	var out []string
	filepath.Walk(repoRoot, func(p string, info os.FileInfo, err error) error {
		if err != nil {
			return nil
		}
		if info.IsDir() && (info.Name() == ".git" || info.Name() == "node_modules") {
			return filepath.SkipDir
		}
		if !info.IsDir() && info.Name() == "contracts_verif.go" {
			out = append(out, p)
		}
		return nil
	})
	ext, _ := filepath.Glob(filepath.Join(extDir, "*.go"))
	out = append(out, ext...)
	sort.Strings(out)
	return out
}

func (cs *ContractSet) loadFile(path string, ext bool) error {
	fh, err := os.Open(path)
	if err != nil {
		return err
	}
	defer fh.Close()
	sc := bufio.NewScanner(fh)
	sc.Buffer(make([]byte, 1<<20), 1<<20)
	pkg := ""
	var cur *Contract
	var lastText *string // continuation target
	var finishers []func() error
	lineNo := 0
	addClause := func(c *Contract, kind string, tags []string, text string, loop int) *Clause {
		cl := &Clause{Kind: kind, Tags: tags, Text: text, Loop: loop, File: path, LineNo: lineNo}
		switch kind {
		case "requires":
			cl.Ord = len(c.Requires) + 1
			c.Requires = append(c.Requires, cl)
		case "ensures":
			cl.Ord = len(c.Ensures) + 1
			c.Ensures = append(c.Ensures, cl)
		case "canary":
			cl.Ord = len(c.Canaries) + 1
			c.Canaries = append(c.Canaries, cl)
		case "noalloc":
			// noalloc[tags] cond: when cond holds on return the call performed no heap allocation
			if strings.TrimSpace(cl.Text) == "" {
				cl.Text = "noerr"
			}
			cl.Ord = len(c.NoAlloc) + 1
			c.NoAlloc = append(c.NoAlloc, cl)
		case "invariant":
			n := 0
			for _, x := range c.Invs {
				if x.Loop == loop {
					n++
				}
			}
			cl.Ord = n + 1
			c.Invs = append(c.Invs, cl)
		}
		lastText = &cl.Text
		return cl
	}
	for sc.Scan() {
		lineNo++
		line := strings.TrimSpace(sc.Text())
		if !strings.HasPrefix(line, "//@") {
			continue
		}
		body := strings.TrimSpace(line[3:])
		// strip trailing comment
		if i := strings.Index(body, " // "); i >= 0 {
			body = strings.TrimSpace(body[:i])
		}
		if body == "" {
			continue
		}
		if strings.HasPrefix(body, "package ") {
			pkg = strings.TrimSpace(body[len("package "):])
			continue
		}
		if strings.HasPrefix(body, "global ") {
			// global Name: expr   (assumed fact about a package-level variable that only the
			// package initialiser assigns; Name is usable in expr)
			rest := strings.TrimSpace(body[len("global "):])
			i := strings.Index(rest, ":")
			if i < 0 || pkg == "" {
				return fmt.Errorf("%s:%d: bad global clause", path, lineNo)
			}
			gf := &GlobalFact{Name: strings.TrimSpace(rest[:i]), Text: strings.TrimSpace(rest[i+1:])}
			if cs.GlobalFacts == nil {
				cs.GlobalFacts = map[string][]*GlobalFact{}
			}
			k := pkg + "." + gf.Name
			cs.GlobalFacts[k] = append(cs.GlobalFacts[k], gf)
			lastText = &gf.Text
			continue
		}
		if strings.HasPrefix(body, "modifies-group ") {
			// modifies-group NAME = key1, key2, @OTHER   (used as: modifies @NAME)
			rest := strings.TrimSpace(body[len("modifies-group "):])
			i := strings.Index(rest, "=")
			if i < 0 {
				return fmt.Errorf("%s:%d: bad modifies-group", path, lineNo)
			}
			name := strings.TrimSpace(rest[:i])
			if cs.Groups == nil {
				cs.Groups = map[string][]string{}
			}
			for _, k := range strings.Split(rest[i+1:], ",") {
				k = strings.TrimSpace(k)
				if k == "" {
					continue
				}
				if strings.HasPrefix(k, "@") {
					cs.Groups[name] = append(cs.Groups[name], cs.Groups[k[1:]]...)
				} else {
					cs.Groups[name] = append(cs.Groups[name], k)
				}
			}
			lastText = nil
			continue
		}
		if strings.HasPrefix(body, "define ") {
			// define NAME(a, b) = expr   (package-level abbreviation, expanded by evaluation)
			m := reDefine.FindStringSubmatch(body)
			if m == nil {
				return fmt.Errorf("%s:%d: bad define", path, lineNo)
			}
			mac := &Macro{Name: m[1], Text: strings.TrimSpace(m[3])}
			for _, p := range strings.Split(m[2], ",") {
				if p = strings.TrimSpace(p); p != "" {
					mac.Params = append(mac.Params, p)
				}
			}
			if cs.Macros == nil {
				cs.Macros = map[string]*Macro{}
			}
			cs.Macros[mac.Name] = mac
			lastText = &mac.Text
			continue
		}
		if m := reHead.FindStringSubmatch(body); m != nil {
			if pkg == "" {
				return fmt.Errorf("%s:%d: func before package", path, lineNo)
			}
			name := strings.TrimSpace(m[2])
			key := funcKey(pkg, name)
			if m[1] == "iface" {
				// iface T.M  -> key "(pkg.T).M"
				i := strings.LastIndex(name, ".")
				key = "(" + pkg + "." + name[:i] + ")." + name[i+1:]
			}
			if _, dup := cs.M[key]; dup {
				return fmt.Errorf("%s:%d: duplicate contract for %s", path, lineNo, key)
			}
			cur = &Contract{Key: key, Pkg: pkg, Name: name, IsIface: m[1] == "iface", File: path, Ext: ext, Decr: map[int]string{}}
			cs.M[key] = cur
			lastText = nil
			continue
		}
		if cur == nil {
			if lastText != nil {
				*lastText += " " + body
				continue
			}
			return fmt.Errorf("%s:%d: clause outside func: %s", path, lineNo, body)
		}
		if m := reAssertSel.FindStringSubmatch(body); m != nil {
			cl := &Clause{Kind: "assert", Tags: parseTags(m[1]), Text: m[3], After: "select:" + m[2], File: path, LineNo: lineNo}
			cl.Ord = len(cur.Asserts) + 1
			cur.Asserts = append(cur.Asserts, cl)
			lastText = &cl.Text
			continue
		}
		if m := reAssert.FindStringSubmatch(body); m != nil {
			cl := &Clause{Kind: "assert", Tags: parseTags(m[1]), Text: m[3], After: m[2], File: path, LineNo: lineNo}
			cl.Ord = len(cur.Asserts) + 1
			cur.Asserts = append(cur.Asserts, cl)
			lastText = &cl.Text
			continue
		}
		if m := reLoop.FindStringSubmatch(body); m != nil {
			k, _ := strconv.Atoi(m[1])
			switch m[2] {
			case "invariant":
				addClause(cur, "invariant", parseTags(m[3]), m[4], k)
			case "modifies", "modifies-fresh":
				md, err := parseModifies(m[4], k)
				if err != nil {
					return fmt.Errorf("%s:%d: %v", path, lineNo, err)
				}
				// modifies-fresh: the loop writes this memory only in objects allocated by this
				// function call (each store is an obligation); objects that existed at entry keep it
				md.Fresh = m[2] == "modifies-fresh"
				cur.Mods = append(cur.Mods, md)
				lastText = nil
			case "decreases":
				cur.Decr[k] = m[4]
				lastText = nil
			}
			continue
		}
		if m := reTagged.FindStringSubmatch(body); m != nil {
			tags := parseTags(m[2])
			switch m[1] {
			case "safety":
				cur.Safety = append(cur.Safety, tags...)
				cur.HasSafe = true
				lastText = nil
			default:
				addClause(cur, m[1], tags, m[3], 0)
			}
			continue
		}
		switch {
		case body == "trusted":
			cur.Trusted = true
			lastText = nil
		case body == "tier thorough":
			// a long proof: verified by the thorough command only (the quick check reports it as deferred)
			cur.ThoroughOnly = true
			lastText = nil
		case body == "wrapping":
			cur.Wrapping = true
			lastText = nil
		case rePreserves.MatchString(body):
			// preserves[tags] cond : pattern, pattern   when cond holds on return (post state, old()
			// allowed), every memory matching the patterns equals its value at entry
			m := rePreserves.FindStringSubmatch(body)
			i := strings.LastIndex(m[2], ":")
			if i < 0 {
				return fmt.Errorf("%s:%d: preserves needs 'cond : patterns'", path, lineNo)
			}
			pc := &Clause{Kind: "preserves", Tags: parseTags(m[1]), Text: strings.TrimSpace(m[2][:i]), File: path, LineNo: lineNo}
			for _, k := range strings.Split(m[2][i+1:], ",") {
				k = strings.TrimSpace(k)
				if strings.HasPrefix(k, "@") {
					pc.Patterns = append(pc.Patterns, cs.Groups[k[1:]]...)
				} else if k != "" {
					pc.Patterns = append(pc.Patterns, k)
				}
			}
			pc.Ord = len(cur.Preserves) + 1
			cur.Preserves = append(cur.Preserves, pc)
			lastText = nil
		case reResets.MatchString(body):
			// resets[C18] p            every field of *p equals its zero value on return, except:
			// retains p.path  reason   fields deliberately kept (capacity, drained queues, ...)
			m := reResets.FindStringSubmatch(body)
			cur.Resets = append(cur.Resets, ResetSpec{Param: m[2], Tags: parseTags(m[1])})
			lastText = nil
		case strings.HasPrefix(body, "retains "):
			f := strings.Fields(body[len("retains "):])
			if len(f) == 0 {
				return fmt.Errorf("%s:%d: bad retains", path, lineNo)
			}
			cur.Retains = append(cur.Retains, f[0])
			lastText = nil
		case strings.HasPrefix(body, "modifies "):
			spec := strings.TrimSpace(body[len("modifies "):])
			if strings.HasPrefix(spec, "@") {
				g, ok := cs.Groups[spec[1:]]
				if !ok {
					return fmt.Errorf("%s:%d: unknown modifies-group %s", path, lineNo, spec)
				}
				for _, k := range g {
					cur.Mods = append(cur.Mods, Modifies{Key: k})
				}
				lastText = nil
				break
			}
			md, err := parseModifies(spec, 0)
			if err != nil {
				return fmt.Errorf("%s:%d: %v", path, lineNo, err)
			}
			cur.Mods = append(cur.Mods, md)
			lastText = nil
		case strings.HasPrefix(body, "allocates "):
			for _, n := range strings.Fields(body[len("allocates "):]) {
				cur.Allocs = append(cur.Allocs, strings.Trim(n, ","))
			}
			lastText = nil
		case strings.HasPrefix(body, "let "):
			rest := strings.TrimSpace(body[4:])
			i := strings.Index(rest, "=")
			if i < 0 {
				return fmt.Errorf("%s:%d: bad let", path, lineNo)
			}
			cur.Lets = append(cur.Lets, LetDef{Name: strings.TrimSpace(rest[:i]), Text: strings.TrimSpace(rest[i+1:])})
			lastText = &cur.Lets[len(cur.Lets)-1].Text
			_ = finishers
		default:
			if lastText == nil {
				return fmt.Errorf("%s:%d: cannot parse clause: %s", path, lineNo, body)
			}
			*lastText += " " + body
		}
	}
	return nil
}

func parseModifies(s string, loop int) (Modifies, error) {
	md := Modifies{Loop: loop}
	if i := strings.Index(s, " at "); i >= 0 {
		md.Key = strings.TrimSpace(s[:i])
		md.At = strings.TrimSpace(s[i+4:])
		e, err := parseExpr(md.At)
		if err != nil {
			return md, err
		}
		md.AtE = e
	} else {
		md.Key = strings.TrimSpace(s)
	}
	return md, nil
}

// finish parses all clause expressions.
func (cs *ContractSet) finish() error {
	for _, l := range cs.GlobalFacts {
		for _, g := range l {
			e, err := parseExpr(g.Text)
			if err != nil {
				return fmt.Errorf("global %s: %v", g.Name, err)
			}
			g.E = e
		}
	}
	for _, m := range cs.Macros {
		e, err := parseExpr(m.Text)
		if err != nil {
			return fmt.Errorf("define %s: %v", m.Name, err)
		}
		m.E = e
	}
	for _, c := range cs.M {
		all := [][]*Clause{c.Requires, c.Ensures, c.Canaries, c.Invs, c.Asserts, c.Preserves, c.NoAlloc}
		for _, l := range all {
			for _, cl := range l {
				e, err := parseExpr(cl.Text)
				if err != nil {
					return fmt.Errorf("%s:%d: %v", cl.File, cl.LineNo, err)
				}
				cl.E = e
			}
		}
		for i := range c.Lets {
			e, err := parseExpr(c.Lets[i].Text)
			if err != nil {
				return fmt.Errorf("%s: let %s: %v", c.File, c.Lets[i].Name, err)
			}
			c.Lets[i].E = e
		}
	}
	return nil
}

// hasTag: positive tags select the listed properties; a list of only negative tags
// ("!C02") selects every property except those.
func hasTag(tags []string, p string) bool {
	pos, neg := false, false
	for _, t := range tags {
		if strings.HasPrefix(t, "!") {
			neg = true
			if t[1:] == p {
				return false
			}
		} else {
			pos = true
			if t == p {
				return true
			}
		}
	}
	return neg && !pos
}

// hasPosTag: p is named explicitly (used to find the root functions of a property).
func hasPosTag(tags []string, p string) bool {
	for _, t := range tags {
		if t == p {
			return true
		}
	}
	return false
}
