//go:build verif

// baselibrary/status: small value functions are VERIFIED from source; package-level statuses are
// assumed to hold what their initialisers construct.
package ext

//@ package github.com/basecomplextech/baselibrary/status

//@ global OK: OK.Code == "ok" && OK.Message == "" && OK.Error == nil
//@ global None: None.Code == "" && None.Message == "" && None.Error == nil
//@ global Closed: Closed.Code == "closed"
//@ global Cancelled: Cancelled.Code == "cancelled"
//@ global Timeout: Timeout.Code == "timeout"
//@ global End: End.Code == "end"
//@ global Wait: Wait.Code == "wait"

//@ func (Status).OK
//@   ensures result <==> s.Code == "ok"

//@ func New
//@   ensures result.Code == code && result.Message == msg && result.Error == nil

//@ func Newf
//@   trusted
//@   ensures result.Code == code && result.Error == nil

//@ func Closedf
//@   trusted
//@   ensures result.Code == "closed" && result.Error == nil

//@ func Errorf
//@   trusted
//@   ensures result.Code == "error"

//@ func Recover
//@   trusted
//@   ensures result.Code != "ok"

// WrapError: assumed - a non-nil error is never a *status.Err carrying the OK code
//@ func WrapError
//@   trusted
//@   modifies ghost.errMade at 0
//@   ensures err != nil ==> result.Code != "ok" && ghost(errMade, 0) == 1
//@   ensures err == nil ==> result.Code == "ok" && ghost(errMade, 0) == old(ghost(errMade, 0))
