#!/bin/bash
# Runs every behaviour-preserving patch of selftest/mustpass against the quick checks of the
# properties whose functions live in the patched package (ALL=1: against all claimed properties).
# Every check must exit 0 without a VIOLATION line. Same scratch-worktree scheme as
# run_corpus_parallel.sh; /repo itself is not touched.
# usage: run_mustpass_parallel.sh [name-substring] [workers]
cd /verif
sub="${1:-}"; N="${2:-8}"
props_for() {
  [ -n "$ALL" ] && { python3 -c "import json;print(' '.join(p['property_id'] for p in json.load(open('/verif/MANIFEST.json'))['checks']))" 2>/dev/null || echo "C01 C02 C04 C07 C08 C10 C11 C12 C13 C14 C15 C16 C17 C18 C19"; return; }
  case "$1" in
    decode-*) echo "C02 C10 C13 C16 C17";;
    encode-*) echo "C08 C10 C01";;
    format-*) echo "C02 C16 C17 C01 C13";;
    types-*)  echo "C02 C13 C16 C17 C01";;
    writer-*) echo "C12 C01 C17 C18";;
    rpc-*)    echo "C04 C18";;
    mpx-*)    echo "C11 C07 C19 C18";;
    parser-*) echo "C15";;
    model-*)  echo "C14";;
    *) echo "C01 C02 C04 C07 C08 C10 C11 C12 C13 C14 C15 C16 C17 C18 C19";;
  esac
}
list=$(mktemp)
for d in selftest/mustpass/*.diff; do
  name=$(basename $d .diff)
  [ -n "$sub" ] && [[ "$name" != *"$sub"* ]] && continue
  for p in $(props_for $name); do echo "$name /verif/$d $p" >> $list; done
done
total=$(wc -l < $list)
worker() {
  i=$1; wt=/tmp/vw_mp_$i
  git -C /repo worktree remove --force $wt 2>/dev/null; rm -rf $wt
  git -C /repo worktree add -q --detach $wt HEAD || exit 1
  n=0
  while read name patch prop; do
    n=$((n+1)); [ $(( (n-1) % N )) -ne $i ] && continue
    if ! git -C $wt apply --check $patch 2>/dev/null; then echo "SKIP $name (patch does not apply)"; continue; fi
    git -C $wt apply $patch
    out=$(VERIF_OUT_SUFFIX=-m$i ${GOVC:-./bin/govc} check --repo $wt --property $prop --no-evidence 2>&1); rc=$?
    git -C $wt checkout -q -- . ; git -C $wt clean -fdq
    nv=$(echo "$out" | grep -c '^VIOLATION')
    if [ $rc -eq 0 ] && [ $nv -eq 0 ]; then echo "quiet $name [$prop]"; else
      echo "ALARM $name [$prop]: exit $rc, $nv violation line(s): $(echo "$out" | grep '^VIOLATION\|rror' | head -3 | sed 's/.*obligation=//; s/ status=[a-z]*//; s/ no-failing-input-found//' | tr '\n' ' ')"; fi
  done < $list
  git -C /repo worktree remove --force $wt; rm -rf /verif/out/*-m$i
}
for i in $(seq 0 $((N-1))); do worker $i & done
wait
git -C /repo worktree prune
rm -f $list
echo "mustpass: $total (patch, property) checks"
