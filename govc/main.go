package main

import (
	"flag"
	"fmt"
	"os"
	"path/filepath"
	"regexp"
	"sort"
	"strings"
	"sync"
	"time"
)

func main() {
	// the repository needs go >= 1.24: always use the pre-installed go1.26.8 toolchain, offline
	os.Setenv("PATH", "/opt/veriftools/go1.26.8/bin:"+os.Getenv("PATH"))
	os.Setenv("GOTOOLCHAIN", "local")
	os.Setenv("GOFLAGS", "-mod=mod")
	os.Setenv("GOPROXY", "off")
	if len(os.Args) < 2 {
		fmt.Fprintln(os.Stderr, "usage: govc verify|check|dump ...")
		os.Exit(2)
	}
	switch os.Args[1] {
	case "verify":
		cmdVerify(os.Args[2:])
	case "check":
		cmdCheck(os.Args[2:])
	case "bindings":
		cmdBindings(os.Args[2:])
	default:
		fmt.Fprintln(os.Stderr, "unknown command")
		os.Exit(2)
	}
}

func envOr(k, d string) string {
	if v := os.Getenv(k); v != "" {
		return v
	}
	return d
}

func setup(repo, verif string) *Engine {
	e := newEngine(repo, verif)
	if err := e.loadSpec(filepath.Join(verif, "spec")); err != nil {
		fatal("spec: %v", err)
	}
	files := findContractFiles(repo, filepath.Join(verif, "contracts", "ext"))
	cs, err := loadContracts(files, repo)
	if err != nil {
		fatal("contracts: %v", err)
	}
	if err := cs.finish(); err != nil {
		fatal("contracts: %v", err)
	}
	e.contracts = cs
	// packages: those named by contracts
	pk := map[string]bool{}
	for _, c := range cs.M {
		pk[c.Pkg] = true
	}
	var pats []string
	for p := range pk {
		pats = append(pats, p)
	}
	sort.Strings(pats)
	if err := e.load(pats); err != nil {
		fatal("load: %v", err)
	}
	e.expandMods()
	e.loadBindings()
	for _, c := range cs.M {
		if len(c.NoAlloc) > 0 {
			e.loadEscapes(pats)
			break
		}
	}
	return e
}

func fatal(f string, a ...any) {
	fmt.Fprintf(os.Stderr, "govc: "+f+"\n", a...)
	os.Exit(2)
}

// verifyAll generates and solves VCs for the given contracts.
func (e *Engine) verifyAll(keys []string, prop string, cfg solveCfg, sel func(o *Oblig, c *Contract) bool) []*FuncResult {
	os.MkdirAll(cfg.outDir, 0o755)
	results := make([]*FuncResult, len(keys))
	var wg sync.WaitGroup
	sem := make(chan struct{}, cfg.par)
	var mu sync.Mutex
	for i, k := range keys {
		con := e.contracts.M[k]
		fn := e.funcs[k]
		if con.Trusted {
			results[i] = &FuncResult{Fn: k, Short: shortFuncName(k), Trusted: true}
			continue
		}
		if fn == nil {
			results[i] = &FuncResult{Fn: k, Short: shortFuncName(k), OutOfSub: "function not found in the loaded program (contract cannot be bound)"}
			continue
		}
		mu.Lock()
		fr := e.genVC(fn, con, prop) // VC generation is sequential (shared engine tables)
		mu.Unlock()
		results[i] = fr
		if fr.OutOfSub != "" {
			continue
		}
		var obs []*Oblig
		for _, o := range fr.Obligs {
			if sel(o, con) {
				obs = append(obs, o)
			}
		}
		fr.Selected = obs
		wg.Add(1)
		go func(fr *FuncResult, obs []*Oblig) {
			defer wg.Done()
			sem <- struct{}{}
			defer func() { <-sem }()
			if err := e.solveFunc(fr, obs, cfg); err != nil {
				fr.Err = err.Error()
			}
		}(fr, obs)
	}
	wg.Wait()
	return results
}

func cmdVerify(args []string) {
	fs := flag.NewFlagSet("verify", flag.ExitOnError)
	repo := fs.String("repo", envOr("VERIF_REPO", "/repo"), "")
	verif := fs.String("verif", envOr("VERIF_DIR", "/verif"), "")
	fre := fs.String("func", ".", "regexp on function key")
	prop := fs.String("prop", "", "")
	timeout := fs.Int("timeout", 10, "")
	verbose := fs.Bool("v", false, "")
	fs.Parse(args)
	e := setup(*repo, *verif)
	re := regexp.MustCompile(*fre)
	var keys []string
	for k, c := range e.contracts.M {
		if re.MatchString(k) && !c.IsIface {
			keys = append(keys, k)
		}
	}
	sort.Strings(keys)
	cfg := solveCfg{outDir: filepath.Join(*verif, "out", "verify"+os.Getenv("VERIF_OUT_SUFFIX")), timeoutSec: *timeout, par: 16}
	t0 := time.Now()
	res := e.verifyAll(keys, *prop, cfg, func(o *Oblig, c *Contract) bool {
		if *prop == "" {
			return true
		}
		return relevant(o, c, *prop)
	})
	bad := 0
	for _, fr := range res {
		switch {
		case fr.Trusted:
			fmt.Printf("TRUSTED   %s\n", fr.Short)
			continue
		case fr.OutOfSub != "":
			fmt.Printf("OUT-OF-SUBSET %s: %s\n", fr.Short, fr.OutOfSub)
			bad++
			continue
		case fr.Err != "":
			fmt.Printf("ERROR     %s: %s\n", fr.Short, fr.Err)
			bad++
			continue
		}
		nd := 0
		for _, o := range fr.Selected {
			ok := o.Status == "discharged"
			if o.Cover || o.Canary {
				ok = o.Status != "discharged"
			}
			if ok {
				nd++
			}
			if !ok || *verbose {
				fmt.Printf("  %-10s %-60s %s %.2fs  %s\n", o.Status, o.Name, o.Solver, o.Seconds, o.Desc)
				if !ok {
					bad++
				}
			}
		}
		fmt.Printf("%-9s %s  %d/%d\n", map[bool]string{true: "OK", false: "FAIL"}[nd == len(fr.Selected)], fr.Short, nd, len(fr.Selected))
		for _, n := range fr.Notes {
			fmt.Printf("    note: %s\n", n)
		}
	}
	fmt.Printf("wall %.1fs, problems %d\n", time.Since(t0).Seconds(), bad)
	if len(e.loadErrs) > 0 && *verbose {
		fmt.Println("load errors:", strings.Join(e.loadErrs, "\n  "))
	}
}

// relevant: does obligation o of contract c count for property p?
func relevant(o *Oblig, c *Contract, p string) bool {
	if o.Cover {
		return true
	}
	if o.Safety {
		// safety obligations count when the function declares safety[p], or declares no safety tags at all
		if !c.HasSafe {
			return o.Kind == "overflow" || o.Kind == "requires"
		}
		return hasTag(c.Safety, p) || len(c.Safety) == 0
	}
	if len(o.Tags) == 0 {
		return true
	}
	return hasTag(o.Tags, p)
}

