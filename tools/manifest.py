#!/usr/bin/env python3
"""Writes /verif/MANIFEST.json from the table below (single source of truth for claims)."""
import json
props = [json.loads(l) for l in open('/verif/properties.jsonl')]
ids = [p['id'] for p in props]

def chk(pid, text, note, technique, design, level='proof'):
    return {
        "property_id": pid,
        "quick_cmd": "/verif/bin/govc check --property %s --tier quick" % pid,
        "thorough_cmd": "/verif/bin/govc check --property %s --tier thorough" % pid,
        "evidence_file": "/verif/evidence/%s.json" % pid,
        "replay_cmd_template": "cat {path}",
        "engine": "govc",
        "level_claimed": {"category": level, "text": text, "design_ref": design},
        "level_note": note,
        "technique": technique,
    }

TECH = "contract-based deductive verification: VCs generated from go/ssa of the real code against //@ contracts, discharged by z3/cvc5"
checks = CHECKS = []
exec(open('/verif/tools/claims.py').read())

claimed = {c['property_id'] for c in checks}
na = [{"property_id": i, "reason": NA.get(i, "check under construction in this round (see DESIGN.md section 0)")} for i in ids if i not in claimed]
hooks_commits = open('/verif/tools/hook_commits.txt').read().split() if __import__('os').path.exists('/verif/tools/hook_commits.txt') else []
m = {
 "version": 1,
 "setup_cmd": "cd /verif/govc && PATH=/opt/veriftools/go1.26.8/bin:$PATH GOTOOLCHAIN=local GOFLAGS=-mod=mod GOPROXY=off go build -o /verif/bin/govc .",
 "hooks": {"guard": "verif", "enable": "build tag `verif` (go build -tags=verif): contract files contracts_verif.go carry //go:build verif and contain only comments (govc reads their //@ lines from /repo's working tree on every run); the ghost client programs internal/verifh/*.go, internal/writer/ghost_verif.go and mpx/ghost_verif.go carry the same tag and are compiled only by the verifier's package load; nothing is built or run with the tag off", "baseline_off_cmd": "/verif/baseline.sh", "source_commits": hooks_commits, "add_only": True},
 "engines": [{"name": "govc", "path": "/verif/govc", "serves_properties": sorted(claimed), "kind_free_text": "self-written VC generator over go/ssa (Int-mode SMT encoding of the real code, loaded from /repo's working tree on every run); contracts as //@ comments; obligations discharged by z3 5.1.0 / z3 4.8.12 / cvc5 1.0; counterexamples replayed on the real code through go test -overlay"}],
 "checks": checks,
 "not_applicable": na,
 "notes": "Contracts live in /repo/**/contracts_verif.go (build tag verif, comment-only) and /verif/contracts/ext (dependencies). Known findings: /verif/known_findings.txt. Must-fail corpus: /verif/selftest."
}
json.dump(m, open('/verif/MANIFEST.json', 'w'), indent=1)
print("claimed", sorted(claimed))
