package main

import (
	"fmt"
	"go/constant"
	"go/token"
	"go/types"
	"math/big"
	"sort"
	"strings"

	"golang.org/x/tools/go/ssa"
)

// ---------------------------------------------------------------- per-function driver

type FuncResult struct {
	Fn        string
	Short     string
	Obligs    []*Oblig
	Script    string
	Notes     []string
	OutOfSub  string // reason, if the function is outside the supported subset
	Used      []string
	Uncon     []string
	Cross     []string
	Trusted   bool
	Pos       token.Position
	Selected  []*Oblig
	Err       string
	ParamNames []string
	ParamVals  []SVal
	ResultVals []SVal
	FreeResults []SVal
	PkgPath    string
	RecvPtr    bool
	HasRecv    bool
	FnName     string
}

func (e *Engine) genVC(fn *ssa.Function, con *Contract, prop string) (res *FuncResult) {
	res = &FuncResult{Fn: fn.String(), Short: shortFuncName(fn.String()), Pos: e.prog.Fset.Position(fn.Pos())}
	vc := &VC{
		eng: e, fn: fn, con: con, prop: prop,
		vals: map[ssa.Value]SVal{}, R: map[*ssa.BasicBlock]string{}, memOut: map[*ssa.BasicBlock]*Mem{},
		keySort: map[string]Sort{}, keyType: map[string]types.Type{}, declared: map[string]bool{}, ord: map[string]int{},
		params: map[string]SVal{}, mem0: &Mem{m: map[string]string{}}, debug: map[string][]debugBinding{},
		lets: map[string]SVal{}, usedCon: map[string]bool{}, uncontracted: map[string]bool{}, assertDone: map[string]bool{}, crossAssumed: map[string]bool{}, aliases: map[int][]memAlias{}, boundOut: map[*ssa.BasicBlock]string{}, epochBound: map[int]string{}, nallocOut: map[*ssa.BasicBlock]string{}, nalloc: "0", nfailOut: map[*ssa.BasicBlock]string{}, nfail: "0",
	}
	defer func() {
		if r := recover(); r != nil {
			if u, ok := r.(unsupported); ok {
				res.OutOfSub = u.msg
				res.Obligs = nil
				return
			}
			panic(r)
		}
	}()
	vc.run()
	for _, p := range fn.Params {
		res.ParamNames = append(res.ParamNames, p.Name())
		res.ParamVals = append(res.ParamVals, vc.vals[p])
	}
	res.ResultVals = vc.mergedResults
	res.FreeResults = vc.freeResults
	if fn.Pkg != nil {
		res.PkgPath = fn.Pkg.Pkg.Path()
	}
	res.FnName = fn.Name()
	if r := fn.Signature.Recv(); r != nil {
		res.HasRecv = true
		_, res.RecvPtr = r.Type().(*types.Pointer)
	}
	res.Obligs = vc.obligs
	res.Script = vc.b.String()
	res.Notes = vc.notes
	for k := range vc.usedCon {
		res.Used = append(res.Used, k)
	}
	for k := range vc.uncontracted {
		res.Uncon = append(res.Uncon, k)
	}
	for k := range vc.crossAssumed {
		res.Cross = append(res.Cross, k)
	}
	return res
}

func (vc *VC) run() {
	fn := vc.fn
	if len(fn.Blocks) == 0 {
		unsup("function has no body")
	}
	if fn.Recover != nil {
		// defers give the function a recover block; it is executed only when a panic is recovered by
		// a deferred call. Deferred function literals (which could call recover) are out of subset.
		for _, b := range fn.Blocks {
			for _, ins := range b.Instrs {
				if d, ok := ins.(*ssa.Defer); ok {
					if _, lit := d.Call.Value.(*ssa.MakeClosure); lit {
						if mc := d.Call.Value.(*ssa.MakeClosure); !strings.HasSuffix(mc.Fn.Name(), "$bound") {
							if why := deferredLiteralOK(mc); why != "" {
								unsup("function defers a function literal that cannot be executed in place (%s)", why)
							}
						}
					}
				}
			}
		}
		vc.note("defers: run at every return in LIFO order; the panic/recover exit is not modelled (panics of this function's own code are excluded by its safety obligations)")
	}
	vc.declare("$A0", SInt)
	vc.fact("true", lt("0", "$A0"))
	// parameters
	for _, p := range fn.Params {
		v := vc.fresh(p.Type(), "p_"+p.Name())
		vc.vals[p] = v
		vc.params[vc.eng.rn(vc.selfKey(), p.Name())] = v
		vc.paramObjFacts(v)
	}
	for _, fv := range fn.FreeVars {
		v := vc.fresh(fv.Type(), "fv_"+fv.Name())
		vc.vals[fv] = v
		vc.params[fv.Name()] = v
		if v.K == KPtr {
			// the cell of a captured variable always exists
			vc.fact("true", and(lt("0", v.obj()), lt(v.obj(), "$A0")))
		}
	}
	// lets + requires
	env := vc.entryEnv()
	if vc.con != nil {
		for _, l := range vc.con.Lets {
			v := vc.nameQuantLet(l.Name, vc.eval(l.E, env))
			vc.lets[l.Name] = v
			env.vars[l.Name] = v
		}
		for _, r := range vc.con.Requires {
			vc.fact("true", vc.evalBool(r.E, env))
		}
	}
	vc.findLoops()
	vc.collectDebug()

	order := rpo(fn, vc.isBack)
	for _, b := range order {
		vc.execBlock(b)
	}
	vc.finish()
}

// objects reachable from parameters predate every allocation made by this function
func (vc *VC) paramObjFacts(v SVal) {
	switch v.K {
	case KSlice, KString, KPtr:
		vc.fact("true", lt(v.obj(), "$A0"))
	case KStruct, KTuple:
		for _, f := range v.F {
			vc.paramObjFacts(f)
		}
	}
}

func (vc *VC) collectDebug() {
	for _, b := range vc.fn.Blocks {
		for i, ins := range b.Instrs {
			if d, ok := ins.(*ssa.DebugRef); ok && !d.IsAddr {
				if o := d.Object(); o != nil {
					n := vc.eng.rn(vc.selfKey(), o.Name())
					vc.debug[n] = append(vc.debug[n], debugBinding{b, i, d.X})
				}
			}
		}
	}
}

func (vc *VC) entryEnv() *Env {
	env := &Env{vc: vc, vars: map[string]SVal{}, mem: vc.mem0, old: nil}
	for k, v := range vc.params {
		env.vars[k] = v
	}
	for k, v := range vc.lets {
		env.vars[k] = v
	}
	return env
}

func (vc *VC) edgeCond(p, b *ssa.BasicBlock) string {
	rp := vc.R[p]
	if rp == "" {
		return "false" // unreachable predecessor (not executed)
	}
	last := p.Instrs[len(p.Instrs)-1]
	if iff, ok := last.(*ssa.If); ok {
		c := vc.val(iff.Cond).S
		if p.Succs[0] == b && p.Succs[1] == b {
			return rp
		}
		if p.Succs[0] == b {
			return and(rp, c)
		}
		return and(rp, not(c))
	}
	return rp
}

func (vc *VC) mergeMems(conds []string, mems []*Mem) *Mem {
	out := &Mem{m: map[string]string{}}
	keys := map[string]bool{}
	for _, m := range mems {
		for k := range m.m {
			keys[k] = true
		}
	}
	// wildcard havocs: identical histories are kept; otherwise every prefix havocked on some
	// branch is havocked again with a new epoch (a sound over-approximation of each branch)
	sameWild := true
	for _, m := range mems[1:] {
		if len(m.wild) != len(mems[0].wild) {
			sameWild = false
			break
		}
		for i := range m.wild {
			if m.wild[i] != mems[0].wild[i] {
				sameWild = false
			}
		}
	}
	if sameWild {
		out.wild = append([]wildHavoc(nil), mems[0].wild...)
	}
	lazyParents := func() bool {
		for _, m := range mems {
			if len(m.lazyMems) > 0 {
				return true
			}
		}
		return false
	}()
	if !sameWild || lazyParents {
		// keys not materialised yet are resolved on first use as the ite over the joined memories
		out.wild = nil
		out.lazyConds = append([]string(nil), conds...)
		out.lazyMems = append([]*Mem(nil), mems...)
	}
	var sorted []string
	for k := range keys {
		sorted = append(sorted, k)
	}
	sort.Strings(sorted)
	for _, k := range sorted {
		leaf := vc.keySort[k]
		var terms []string
		same := true
		for _, m := range mems {
			t := vc.memGet(m, k, leaf)
			terms = append(terms, t)
			if t != terms[0] {
				same = false
			}
		}
		if same {
			out.m[k] = terms[0]
			continue
		}
		out.m[k] = vc.joinMem(k, leaf, conds, terms)
	}
	return out
}

// joinMem: the memory after a control-flow join is a fresh array constant that EQUALS the
// memory of whichever incoming edge was taken (guarded equalities rather than an ite term, so
// that quantifier triggers over the incoming memories also fire on the joined one).
func (vc *VC) joinMem(key string, leaf Sort, conds, terms []string) string {
	name := vc.declare(vc.sym("Mj_"+key), memSort(leaf))
	for i := range terms {
		vc.fact(conds[i], eq(name, terms[i]))
	}
	return name
}

func (vc *VC) execBlock(b *ssa.BasicBlock) {
	vc.cur = b
	vc.blockBound(b)
	if l, isHeader := vc.loops[b]; isHeader {
		vc.enterLoop(b, l)
	} else if b.Index == 0 && b.Parent() != vc.fn {
		// entry of a helper executed in place: the caller's path condition, memory and counters
		vc.R[b] = vc.inlR
		vc.curMem = vc.inlMem.clone()
	} else if b.Index == 0 {
		vc.R[b] = "true"
		vc.curMem = vc.mem0.clone()
		vc.nalloc = "0"
		vc.nfail = "0"
	} else {
		var conds []string
		var mems []*Mem
		var preds []*ssa.BasicBlock
		for _, p := range b.Preds {
			if vc.R[p] == "" || deadEdge(p, b) {
				continue
			}
			conds = append(conds, vc.edgeCond(p, b))
			mems = append(mems, vc.memOut[p])
			preds = append(preds, p)
		}
		if len(preds) == 0 {
			return // unreachable block
		}
		vc.R[b] = vc.def("R", SBool, or(conds...))
		vc.nallocJoin(b, preds)
		if len(mems) == 1 {
			vc.curMem = mems[0].clone()
		} else {
			vc.curMem = vc.mergeMems(conds, mems)
		}
		// phis
		for _, ins := range b.Instrs {
			phi, ok := ins.(*ssa.Phi)
			if !ok {
				break
			}
			var v SVal
			first := true
			for i := len(b.Preds) - 1; i >= 0; i-- {
				p := b.Preds[i]
				if vc.R[p] == "" || deadEdge(p, b) {
					continue
				}
				ev := vc.val(phi.Edges[i])
				ev = vc.coerce(ev, phi.Type())
				if first {
					v = ev
					first = false
				} else {
					v = vc.iteVal(vc.edgeCond(p, b), ev, v)
				}
			}
			vc.vals[phi] = vc.nameVal(v, "phi_"+phi.Comment)
		}
	}
	for _, ins := range b.Instrs {
		if _, ok := ins.(*ssa.Phi); ok {
			continue
		}
		vc.nallocInstr(ins)
		vc.execInstr(ins)
	}
	vc.nallocOut[b] = vc.nalloc
	vc.nfailOut[b] = vc.nfail
	vc.memOut[b] = vc.curMem
	vc.boundOut[b] = vc.curBound()
	// back edges: invariant preservation
	for _, s := range b.Succs {
		if vc.isBack(b, s) {
			vc.checkInv(vc.loops[s], b, "inv-preserved")
		}
	}
}

// coerce adapts nil constants and similar to the shape of type T.
func (vc *VC) coerce(v SVal, T types.Type) SVal {
	if v.K == KRef && v.S == "0" {
		switch T.Underlying().(type) {
		case *types.Slice, *types.Pointer:
			z := vc.zero(T)
			return z
		}
	}
	return v
}

// ---------------------------------------------------------------- loops

func (vc *VC) loopEnv(l *loopInfo, phiVals map[string]SVal, mem *Mem) *Env {
	env := &Env{vc: vc, vars: map[string]SVal{}, mem: mem, old: &Env{vc: vc, vars: map[string]SVal{}, mem: vc.mem0}}
	// debug bindings that dominate the header
	for name, bs := range vc.debug {
		for _, db := range bs {
			if db.blk != l.header && db.blk.Dominates(l.header) {
				if v, ok := vc.vals[db.val]; ok {
					env.vars[name] = v
				} else if c, isC := db.val.(*ssa.Const); isC {
					env.vars[name] = vc.constVal(c)
				}
			}
		}
	}
	for k, v := range vc.params {
		if _, shadow := env.vars[k]; !shadow {
			env.vars[k] = v
		}
	}
	for k, v := range vc.params {
		env.old.vars[k] = v
	}
	for k, v := range vc.lets {
		env.vars[k] = v
		env.old.vars[k] = v
	}
	for k, v := range phiVals {
		env.vars[k] = v
	}
	// allocation / failed-callee counters (C17), usable in loop invariants
	if vc.tracksAlloc() {
		env.vars["nalloc"] = mkInt(vc.nalloc)
		env.vars["nfail"] = mkInt(vc.nfail)
	}
	return env
}

func (vc *VC) loopInvs(l *loopInfo) []*Clause {
	var out []*Clause
	if vc.con == nil {
		return nil
	}
	for _, c := range vc.con.Invs {
		if c.Loop == l.ord {
			out = append(out, c)
		}
	}
	out = append(out, vc.autoInvs(l)...)
	return out
}

func (vc *VC) enterLoop(b *ssa.BasicBlock, l *loopInfo) {
	invs := vc.loopInvs(l)
	if len(invs) == 0 {
		unsup("loop %d has no invariant", l.ord)
	}
	// entry edges
	var conds []string
	var mems []*Mem
	var entries []*ssa.BasicBlock
	for _, p := range b.Preds {
		if vc.isBack(p, b) || vc.R[p] == "" || deadEdge(p, b) {
			continue
		}
		conds = append(conds, vc.edgeCond(p, b))
		mems = append(mems, vc.memOut[p])
		entries = append(entries, p)
	}
	if len(entries) == 0 {
		return
	}
	var pre *Mem
	if len(mems) == 1 {
		pre = mems[0].clone()
	} else {
		pre = vc.mergeMems(conds, mems)
	}
	vc.nallocJoin(b, entries)
	vc.nallocLoopHead(l, vc.nalloc)
	// resolve loop modifies (evaluated in the pre-loop state)
	if vc.con != nil {
		penv := vc.loopEnv(l, nil, pre)
		for _, m := range vc.con.Mods {
			if m.Loop != l.ord {
				continue
			}
			rm := resolvedMod{key: m.Key, fresh: m.Fresh}
			if m.AtE != nil {
				v := vc.eval(m.AtE, penv)
				rm.obj = objOf(v)
			}
			l.mods = append(l.mods, rm)
		}
	}
	// invariant holds on entry
	for _, p := range entries {
		vc.checkInvFrom(l, p, b, vc.memOut[p], "inv-entry")
	}
	// header state: havoc phis and modified memory
	vc.R[b] = vc.def("Rloop", SBool, or(conds...))
	vc.curMem = pre
	// every object mentioned by the memory at the loop head exists (is below the header's bound)
	savePB := vc.pendingBound
	if vc.bound != "" && vc.bound != "$A0" {
		vc.pendingBound = vc.bound
	}
	defer func() { vc.pendingBound = savePB }()
	for _, m := range l.mods {
		if p, wild := isWildKey(m.key); wild {
			vc.havocPrefix(vc.curMem, p)
			continue
		}
		leaf, ok := vc.keySort[m.key]
		if !ok {
			leaf = vc.eng.keySortHint(m.key)
		}
		M := vc.memGet(pre, m.key, leaf)
		if m.obj == "" {
			vc.curMem.m[m.key] = vc.declMem(vc.sym("Mh_"+m.key), m.key, leaf, true)
			if m.fresh {
				// objects that existed when the function was entered keep their content
				h := vc.curMem.m[m.key]
				vc.emit(fmt.Sprintf("(assert (forall ((o Int)) (! (=> (< o $A0) (= (select %s o) (select %s o))) :pattern ((select %s o)))))", h, M, h))
			}
		} else {
			a := vc.declMem(vc.sym("Ah_"+m.key), m.key, leaf, false)
			vc.curMem.m[m.key] = vc.def("Mh_"+m.key, memSort(leaf), sto(M, m.obj, a))
		}
	}
	phiVals := map[string]SVal{}
	for _, ins := range b.Instrs {
		phi, ok := ins.(*ssa.Phi)
		if !ok {
			break
		}
		v := vc.fresh(phi.Type(), "h_"+phi.Comment)
		if vc.bound != "" {
			vc.objsBelow(v, vc.bound) // a loop-carried pointer refers to an object that exists
		}
		vc.vals[phi] = v
		if phi.Comment != "" {
			phiVals[vc.eng.rn(vc.selfKey(), phi.Comment)] = v
		}
	}
	vc.bindHeaderDebug(b, phiVals, func(p *ssa.Phi) SVal { return vc.vals[p] })
	env := vc.loopEnv(l, phiVals, vc.curMem)
	for _, c := range invs {
		vc.fact(vc.R[b], vc.evalBool(c.E, env))
	}
}

func objOf(v SVal) string {
	switch v.K {
	case KSlice, KString, KPtr:
		return v.obj()
	case KInt, KRef:
		return v.S
	}
	unsup("modifies 'at' expression has no object")
	return ""
}

func (vc *VC) checkInv(l *loopInfo, from *ssa.BasicBlock, kind string) {
	vc.checkInvFrom(l, from, l.header, vc.curMem, kind)
}

func (vc *VC) checkInvFrom(l *loopInfo, from, header *ssa.BasicBlock, mem *Mem, kind string) {
	if vc.R[from] == "" {
		return
	}
	phiVals := map[string]SVal{}
	idx := -1
	for i, p := range header.Preds {
		if p == from {
			idx = i
		}
	}
	for _, ins := range header.Instrs {
		phi, ok := ins.(*ssa.Phi)
		if !ok {
			break
		}
		if phi.Comment != "" {
			phiVals[vc.eng.rn(vc.selfKey(), phi.Comment)] = vc.coerce(vc.val(phi.Edges[idx]), phi.Type())
		}
	}
	vc.bindHeaderDebug(header, phiVals, func(p *ssa.Phi) SVal { return vc.coerce(vc.val(p.Edges[idx]), p.Type()) })
	env := vc.loopEnv(l, phiVals, mem)
	if n, ok := vc.nallocOut[from]; ok && vc.tracksAlloc() {
		env.vars["nalloc"] = mkInt(n)
		env.vars["nfail"] = mkInt(vc.nfailOut[from])
	}
	guard := vc.edgeCond(from, header)
	for _, c := range vc.loopInvs(l) {
		save := vc.ord[kind]
		vc.ord[kind] = 0
		o := vc.oblige(kind, guard, vc.evalBool(c.E, env), header.Instrs[0].Pos(), fmt.Sprintf("loop %d invariant %d: %s", l.ord, c.Ord, c.Text))
		vc.ord[kind] = save
		o.Name = fmt.Sprintf("%s#%s.%d.%d", vc.fname(), kind, l.ord, c.Ord)
		if kind == "inv-preserved" || kind == "inv-entry" {
			// several edges may produce the same name: disambiguate by source block ordinal
			n := 0
			for _, x := range vc.obligs {
				if x != o && (x.Name == o.Name || strings.HasPrefix(x.Name, o.Name+"@")) {
					n++
				}
			}
			if n > 0 {
				o.Name = fmt.Sprintf("%s@%d", o.Name, n+1)
			}
		}
		o.Tags = c.Tags
	}
}

// ---------------------------------------------------------------- values

func (vc *VC) val(v ssa.Value) SVal {
	if sv, ok := vc.vals[v]; ok {
		return sv
	}
	switch x := v.(type) {
	case *ssa.Const:
		return vc.constVal(x)
	case *ssa.Function:
		return refV(vc.funcRef(x.String()), x.Type())
	case *ssa.Global:
		// address of a package-level variable: object id derived from its name
		name := "$G_" + sanitize(x.String())
		vc.declare(name, SInt)
		vc.fact("true", and(lt("0", name), lt(name, "$A0")))
		p := ptrV(x.Type(), name, "0")
		el := x.Type().(*types.Pointer).Elem()
		p.Key = ptrKeyFor(el)
		if _, isArr := el.Underlying().(*types.Array); isArr {
			p.Key = typeKey(flatElem(el))
		}
		// assumed facts about package-level variables that only the initialiser assigns
		if !vc.declared["gf:"+name] {
			vc.declared["gf:"+name] = true
			if facts := vc.eng.contracts.GlobalFacts[x.String()]; len(facts) > 0 && vc.eng.initOnlyGlobal(x) {
				bound := p
				if _, isSt := el.Underlying().(*types.Struct); !isSt {
					bound = vc.loadSpec(p, el, vc.mem0) // a map / scalar variable: its value
				}
				env := &Env{vc: vc, vars: map[string]SVal{x.Name(): bound}, mem: vc.mem0}
				for _, gf := range facts {
					vc.fact("true", vc.evalBool(gf.E, env))
					vc.note("assumed: package-level variable %s satisfies %s (assigned only by the package initialiser)", x.Name(), gf.Text)
				}
			}
		}
		return p
	case *ssa.Builtin:
		return refV("0", x.Type())
	}
	unsup("use of value %s (%T) before definition", v.Name(), v)
	return SVal{}
}

func (vc *VC) funcRef(name string) string {
	n := "$F_" + sanitize(name)
	if !vc.declared[n] {
		vc.declare(n, SInt)
		vc.fact("true", lt("0", n))
	}
	return n
}

func (vc *VC) constVal(c *ssa.Const) SVal {
	T := c.Type()
	if c.Value == nil {
		// zero value / nil
		if _, ok := T.Underlying().(*types.Basic); ok && T.Underlying().(*types.Basic).Kind() == types.UntypedNil {
			return refV("0", T)
		}
		return vc.zero(T)
	}
	switch c.Value.Kind() {
	case constant.Bool:
		if constant.BoolVal(c.Value) {
			return boolV("true")
		}
		return boolV("false")
	case constant.Int:
		n, _ := new(big.Int).SetString(c.Value.ExactString(), 10)
		if b, ok := T.Underlying().(*types.Basic); ok && b.Info()&types.IsFloat != 0 {
			return vc.floatConst(c, T)
		}
		return intV(lit(n), T)
	case constant.String:
		return vc.constStr(T, constant.StringVal(c.Value))
	case constant.Float:
		return vc.floatConst(c, T)
	}
	unsup("constant %v", c)
	return SVal{}
}

func (vc *VC) floatConst(c *ssa.Const, T types.Type) SVal {
	f, _ := constant.Float64Val(c.Value)
	so, _ := scalarSort(T)
	if so == SF32 {
		f32, _ := constant.Float32Val(c.Value)
		return SVal{K: KFloat, T: T, S: fpLit32(f32)}
	}
	return SVal{K: KFloat, T: T, S: fpLit64(f)}
}
