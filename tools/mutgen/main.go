// mutgen lists single-token mutations of Go source files (for the mutation campaign that measures
// how sensitive the checks are): relational / arithmetic operator swaps and integer literal +1.
// usage: mutgen file.go...   -> lines "file<TAB>offset<TAB>old<TAB>new<TAB>line"
package main

import (
	"fmt"
	"go/ast"
	"go/parser"
	"go/token"
	"os"
	"strconv"
)

var swaps = map[token.Token][]string{
	token.LSS: {"<="}, token.LEQ: {"<"}, token.GTR: {">="}, token.GEQ: {">"},
	token.EQL: {"!="}, token.NEQ: {"=="}, token.ADD: {"-"}, token.SUB: {"+"},
	token.LAND: {"||"}, token.LOR: {"&&"},
}

func main() {
	for _, f := range os.Args[1:] {
		fset := token.NewFileSet()
		af, err := parser.ParseFile(fset, f, nil, 0)
		if err != nil {
			continue
		}
		ast.Inspect(af, func(n ast.Node) bool {
			switch x := n.(type) {
			case *ast.BinaryExpr:
				for _, nw := range swaps[x.Op] {
					p := fset.Position(x.OpPos)
					fmt.Printf("%s\t%d\t%s\t%s\t%d\n", f, p.Offset, x.Op.String(), nw, p.Line)
				}
			case *ast.BasicLit:
				if x.Kind == token.INT {
					if v, err := strconv.ParseInt(x.Value, 0, 64); err == nil && v >= 0 && v < 1<<40 {
						p := fset.Position(x.Pos())
						fmt.Printf("%s\t%d\t%s\t%d\t%d\n", f, p.Offset, x.Value, v+1, p.Line)
					}
				}
			}
			return true
		})
	}
}
