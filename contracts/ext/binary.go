//go:build verif

// Contracts for encoding/binary big-endian accessors (standard library; source loaded
// from GOROOT and VERIFIED against these contracts).
package ext

//@ package encoding/binary

//@ func (bigEndian).Uint16
//@   safety[C02]
//@   requires len(b) >= 2
//@   ensures[!C02] result == be16(mem(b), lo(b))
//@   noalloc[C17]

//@ func (bigEndian).Uint32
//@   safety[C02]
//@   requires len(b) >= 4
//@   ensures[!C02] result == be32(mem(b), lo(b))
//@   noalloc[C17]

//@ func (bigEndian).Uint64
//@   safety[C02]
//@   requires len(b) >= 8
//@   ensures[!C02] result == be64(mem(b), lo(b))
//@   noalloc[C17]
