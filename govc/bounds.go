package main

import "golang.org/x/tools/go/ssa"

// objsBelow: every object a callee returns existed when it returned (id below the new bound).
func (vc *VC) objsBelow(v SVal, bound string) {
	switch v.K {
	case KSlice, KString, KPtr:
		vc.fact("true", lt(v.obj(), bound))
	case KStruct, KTuple:
		for _, f := range v.F {
			vc.objsBelow(f, bound)
		}
	}
}

// blockBound sets the allocation bound at the start of block b from its executed predecessors
// (back edges excluded): the same bound if they agree, else a fresh constant above all of them.
func (vc *VC) blockBound(b *ssa.BasicBlock) {
	if b.Index == 0 {
		if b.Parent() != vc.fn {
			return // entry of a helper executed in place: the caller's bound stands
		}
		vc.bound = "$A0"
		return
	}
	var bs []string
	for _, p := range b.Preds {
		if vc.isBack(p, b) || vc.R[p] == "" {
			continue
		}
		pb := vc.boundOut[p]
		if pb == "" {
			pb = "$A0"
		}
		dup := false
		for _, x := range bs {
			if x == pb {
				dup = true
			}
		}
		if !dup {
			bs = append(bs, pb)
		}
	}
	if _, isHeader := vc.loops[b]; isHeader && len(bs) > 0 {
		// a loop header is also reached from its own body: objects allocated in earlier iterations
		// exist, so the bound is a fresh value not below the bound on entry to the loop
		vc.allocN++
		j := vc.declare(sanitizeBound(vc.allocN), SInt)
		for _, x := range bs {
			vc.fact("true", le(x, j))
		}
		vc.bound = j
		return
	}
	switch len(bs) {
	case 0:
		vc.bound = "$A0"
	case 1:
		vc.bound = bs[0]
	default:
		vc.allocN++
		j := vc.declare(sanitizeBound(vc.allocN), SInt)
		for _, x := range bs {
			vc.fact("true", le(x, j))
		}
		vc.bound = j
	}
}

func sanitizeBound(n int) string { return "$boundj" + itoa(n) }

func itoa(n int) string {
	if n == 0 {
		return "0"
	}
	s := ""
	for n > 0 {
		s = string(rune('0'+n%10)) + s
		n /= 10
	}
	return s
}
