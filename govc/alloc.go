package main

import (
	"bufio"
	"bytes"
	"fmt"
	"go/token"
	"go/types"
	"os"
	"os/exec"
	"path/filepath"
	"regexp"
	"strconv"
	"strings"

	"golang.org/x/tools/go/ssa"
)

// Allocation effects (C17).
//
// Whether an expression allocates is decided by the Go compiler's escape analysis, not by the
// source text. The engine therefore takes the compiler's own decisions as an ORACLE: it runs
// `go build -gcflags=-m` on the packages under contract (every run, from the working tree) and
// records every source line carrying an "escapes to heap" / "moved to heap" diagnostic. An SSA
// instruction that can allocate (call, alloc, make*, boxing, string conversion / concatenation) and
// sits on such a line counts as one allocation; append counts as an allocation unless the capacity
// suffices; map updates, go statements and channel creation always count. A call adds the
// callee's allocations: none when one of its `noalloc cond` clauses applies, unknown otherwise.
// `noalloc[tags] cond` on the function under verification is the obligation: on every return
// where cond holds, the allocation count is zero.
//
// Loops: an allocation site inside a loop from which the loop header is reachable again makes the
// count at the header unknown (every noalloc obligation after it fails); sites on paths that leave
// the loop (error returns) do not.

var gcSizes = types.SizesFor("gc", "amd64")

var reEsc = regexp.MustCompile(`^(.+?):(\d+):(\d+): (.*)$`)

type escOracle struct {
	lines map[string]map[int][]string
	err   string
}

func (e *Engine) loadEscapes(pats []string) {
	e.esc = &escOracle{lines: map[string]map[int][]string{}}
	args := append([]string{"build", "-tags=verif", "-gcflags=-m"}, pats...)
	cmd := exec.Command("go", args...)
	cmd.Dir = e.repo
	cmd.Env = append(os.Environ(), "GOFLAGS=-mod=mod", "GOPROXY=off", "GOTOOLCHAIN=local")
	var out bytes.Buffer
	cmd.Stdout = &out
	cmd.Stderr = &out
	if err := cmd.Run(); err != nil {
		// diagnostics are still printed for the packages that compiled
		e.esc.err = err.Error()
	}
	sc := bufio.NewScanner(&out)
	sc.Buffer(make([]byte, 1<<20), 1<<26)
	n := 0
	for sc.Scan() {
		m := reEsc.FindStringSubmatch(sc.Text())
		if m == nil {
			continue
		}
		msg := m[4]
		if !strings.Contains(msg, "escapes to heap") && !strings.Contains(msg, "moved to heap") {
			continue
		}
		if msg == "append escapes to heap" {
			continue // the growth of an append is modelled exactly (it allocates iff the capacity does not suffice)
		}
		file := m[1]
		if !filepath.IsAbs(file) {
			file = filepath.Join(e.repo, file)
		}
		ln, _ := strconv.Atoi(m[2])
		if e.esc.lines[file] == nil {
			e.esc.lines[file] = map[int][]string{}
		}
		e.esc.lines[file][ln] = append(e.esc.lines[file][ln], msg)
		n++
	}
	e.esc.err = strings.TrimSpace(fmt.Sprintf("%d escaping sites recorded %s", n, e.esc.err))
}

func (e *Engine) escapesAt(pos token.Position) []string {
	if e.esc == nil || !pos.IsValid() {
		return nil
	}
	return e.esc.lines[pos.Filename][pos.Line]
}

// tracksAlloc: allocation counting is on when the oracle is loaded.
func (vc *VC) tracksAlloc() bool { return vc.eng.esc != nil }

// allocCapable: instruction kinds that may allocate when the compiler says the line escapes.
// Calls are not among them: a call contributes through its callee's contract (the compiler reports
// the allocations of an INLINED callee at the caller's line; the callee's noalloc clause, proved on
// the callee's own body, already accounts for them).
func allocCapable(ins ssa.Instruction) bool {
	switch x := ins.(type) {
	case *ssa.Alloc, *ssa.MakeInterface, *ssa.MakeSlice, *ssa.MakeClosure:
		return true
	case *ssa.Convert:
		return true
	case *ssa.BinOp:
		return x.Op == token.ADD && isStringType(x.X.Type())
	}
	return false
}

func alwaysAllocates(ins ssa.Instruction) bool {
	switch ins.(type) {
	case *ssa.MakeMap, *ssa.MakeChan, *ssa.MapUpdate, *ssa.Go:
		return true
	}
	return false
}

// nallocInstr: called before an instruction is executed.
func (vc *VC) nallocInstr(ins ssa.Instruction) {
	if !vc.tracksAlloc() {
		return
	}
	if alwaysAllocates(ins) {
		vc.nalloc = add(vc.nalloc, "1")
		vc.allocSites = append(vc.allocSites, fmt.Sprintf("%s: %T", vc.eng.prog.Fset.Position(ins.Pos()), ins))
		return
	}
	if !allocCapable(ins) {
		return
	}
	if a, ok := ins.(*ssa.Alloc); ok {
		// a zero-size object ([]T{} literal, struct{}{}) is not allocated (runtime zerobase), although
		// the compiler reports it as escaping
		if pt, ok := a.Type().Underlying().(*types.Pointer); ok && gcSizes.Sizeof(pt.Elem()) == 0 {
			return
		}
	}
	pos := vc.eng.prog.Fset.Position(ins.Pos())
	if msgs := vc.eng.escapesAt(pos); len(msgs) > 0 {
		vc.nalloc = add(vc.nalloc, "1")
		vc.allocSites = append(vc.allocSites, fmt.Sprintf("%s: %s", pos, msgs[0]))
		return
	}
	if a, ok := ins.(*ssa.Alloc); ok && a.Heap && !pos.IsValid() {
		vc.nalloc = add(vc.nalloc, "1") // no position to ask the oracle about: conservative
	}
}

// nallocJoin: the count on entry to block b, from its executed predecessors.
func (vc *VC) nallocJoin(b *ssa.BasicBlock, preds []*ssa.BasicBlock) {
	if !vc.tracksAlloc() {
		return
	}
	vc.nalloc = vc.counterJoin(b, preds, vc.nallocOut, "nalloc")
	vc.nfail = vc.counterJoin(b, preds, vc.nfailOut, "nfail")
}

func (vc *VC) counterJoin(b *ssa.BasicBlock, preds []*ssa.BasicBlock, out map[*ssa.BasicBlock]string, hint string) string {
	if len(preds) == 0 {
		return "0"
	}
	acc := out[preds[len(preds)-1]]
	same := true
	for _, p := range preds {
		if out[p] != acc {
			same = false
		}
	}
	if same {
		return acc
	}
	for i := len(preds) - 2; i >= 0; i-- {
		acc = ite(vc.edgeCond(preds[i], b), out[preds[i]], acc)
	}
	return vc.def(hint, SInt, acc)
}

// nallocLoopHead: at a loop header the count is the pre-loop count unless the loop body contains an
// allocation site from which the header is reachable again.
func (vc *VC) nallocLoopHead(l *loopInfo, pre string) {
	if !vc.tracksAlloc() {
		return
	}
	vc.nalloc = pre
	reach := vc.blocksReaching(l)
	for b := range l.body {
		if !reach[b] {
			continue
		}
		for _, ins := range b.Instrs {
			flagged := alwaysAllocates(ins)
			if !flagged && allocCapable(ins) {
				flagged = len(vc.eng.escapesAt(vc.eng.prog.Fset.Position(ins.Pos()))) > 0
			}
			if c, ok := ins.(*ssa.Call); ok {
				if _, isB := c.Call.Value.(*ssa.Builtin); !isB {
					flagged = true // a call may allocate: its contribution is added per iteration
				} else if c.Call.Value.Name() == "append" {
					flagged = true
				}
			}
			if flagged {
				n := vc.declare(vc.sym("nalloc_h"), SInt)
				vc.fact("true", le(pre, n))
				vc.nalloc = n
				f := vc.declare(vc.sym("nfail_h"), SInt)
				vc.fact("true", le(vc.nfail, f))
				vc.nfail = f
				return
			}
		}
	}
}

// blocksReaching: the blocks of the loop from which the header can be reached again inside the loop.
func (vc *VC) blocksReaching(l *loopInfo) map[*ssa.BasicBlock]bool {
	reach := map[*ssa.BasicBlock]bool{}
	changed := true
	for changed {
		changed = false
		for b := range l.body {
			if reach[b] {
				continue
			}
			for _, s := range b.Succs {
				if s == l.header || (l.body[s] && reach[s]) {
					reach[b] = true
					changed = true
					break
				}
			}
		}
	}
	return reach
}

// nallocCall: the callee's contribution.
func (vc *VC) nallocCall(con *Contract, post *Env, what string) {
	if !vc.tracksAlloc() {
		return
	}
	d := vc.declare(vc.sym("dalloc"), SInt)
	vc.fact("true", le("0", d))
	if con != nil {
		if len(con.NoAlloc) > 0 {
			// whether the callee's own callees all succeeded is not observable here
			cok := vc.declare(vc.sym("cok"), SBool)
			post.vars["calleesok"] = boolV(cok)
			for _, c := range con.NoAlloc {
				if strings.Contains(c.Text, "calleesok") {
					// transitive: an error swallowed somewhere below the callee counts as a failed callee
					vc.nfail = add(vc.nfail, ite(cok, "0", "1"))
					break
				}
			}
		}
		for _, c := range con.NoAlloc {
			vc.fact(vc.R[vc.cur], implies(vc.evalBool(c.E, post), eq(d, "0")))
		}
	}
	vc.nalloc = add(vc.nalloc, d)
	// calleesok: every call made so far returned without error
	if post != nil {
		if ne, ok := post.vars["noerr"]; ok && ne.S != "true" {
			vc.nfail = add(vc.nfail, ite(ne.S, "0", "1"))
		}
	}
}

// nallocAppend: append allocates only when the capacity does not suffice.
func (vc *VC) nallocAppend(grows string) {
	if !vc.tracksAlloc() {
		return
	}
	vc.nalloc = add(vc.nalloc, ite(grows, "1", "0"))
}

func isStringType(T types.Type) bool {
	b, ok := T.Underlying().(*types.Basic)
	return ok && b.Info()&types.IsString != 0
}
