; idx(a,b) = a + b: element addresses go through this function so that quantified clauses over
; s[k] have an E-matching trigger independent of the arithmetic normal form of the index.
;@proof-only
(declare-fun idx (Int Int) Int)
(assert (forall ((a Int) (b Int)) (! (= (idx a b) (+ a b)) :pattern ((idx a b)))))
;@end
;@model (define-fun idx ((a Int) (b Int)) Int (+ a b))
; Wire-format specification functions (Int mode). Written from the property statements
; and the pinned layout, with LITERAL constants (no reference to format.TypeX).
; M: byte array of one object; e: index one past the value's last byte; lo: lowest readable index.
(define-fun be16 ((M (Array Int Int)) (i Int)) Int (+ (* 256 (select M i)) (select M (+ i 1))))
(define-fun be32 ((M (Array Int Int)) (i Int)) Int (+ (* 65536 (be16 M i)) (be16 M (+ i 2))))
(define-fun be64 ((M (Array Int Int)) (i Int)) Int (+ (* 4294967296 (be32 M i)) (be32 M (+ i 4))))
(define-fun isByte ((x Int)) Bool (and (<= 0 x) (<= x 255)))
; ---- reverse compact varint ending at e
(define-fun varintSize ((M (Array Int Int)) (lo Int) (e Int)) Int
  (let ((a (- e lo)))
  (ite (<= a 0) (- 1)
  (let ((f (select M (- e 1))))
  (ite (<= f 252) 1
  (ite (= f 253) (ite (>= a 3) 3 (- 1))
  (ite (= f 254) (ite (>= a 5) 5 (- 1))
                 (ite (>= a 9) 9 (- 1)))))))))
(define-fun varintVal ((M (Array Int Int)) (e Int) (n Int)) Int
  (ite (= n 1) (select M (- e 1))
  (ite (= n 3) (be16 M (- e 3))
  (ite (= n 5) (be32 M (- e 5)) (be64 M (- e 9))))))
; canonical encoding relation: the n bytes starting at s are the canonical varint of v
(define-fun isUvarint ((M (Array Int Int)) (s Int) (n Int) (v Int)) Bool
  (or (and (<= 0 v) (<= v 252) (= n 1) (= (select M s) v))
      (and (< 252 v) (<= v 65535) (= n 3) (= (be16 M s) v) (= (select M (+ s 2)) 253))
      (and (< 65535 v) (<= v 4294967295) (= n 5) (= (be32 M s) v) (= (select M (+ s 4)) 254))
      (and (< 4294967295 v) (= n 9) (= (be64 M s) v) (= (select M (+ s 8)) 255))))
(define-fun uvarintLen ((v Int)) Int (ite (<= v 252) 1 (ite (<= v 65535) 3 (ite (<= v 4294967295) 5 9))))
; a size field is a varint of at most 5 bytes
(define-fun sizeFieldSize ((M (Array Int Int)) (lo Int) (e Int)) Int
  (let ((n (varintSize M lo e))) (ite (= n 9) (- 1) n)))
(define-fun zigzag ((x Int)) Int (ite (>= x 0) (* 2 x) (- (* (- 2) x) 1)))
(define-fun unzigzag ((u Int)) Int (ite (= (mod u 2) 0) (div u 2) (- (- (div u 2)) 1)))
; ---- total size of the value that ends at e, or -1
(define-fun sizedValue ((M (Array Int Int)) (lo Int) (e1 Int) (a Int) (extra Int)) Int
  (let ((m (sizeFieldSize M lo e1)))
    (ite (< m 0) (- 1)
      (let ((sz (+ 1 m (varintVal M e1 m) extra)))
        (ite (<= sz a) sz (- 1))))))
(define-fun tabledValue ((M (Array Int Int)) (lo Int) (e1 Int) (a Int)) Int
  (let ((m1 (sizeFieldSize M lo e1)))
    (ite (< m1 0) (- 1)
      (let ((ts (varintVal M e1 m1)) (e2 (- e1 m1)))
        (let ((m2 (sizeFieldSize M lo e2)))
          (ite (< m2 0) (- 1)
            (let ((sz (+ 1 m1 ts m2 (varintVal M e2 m2))))
              (ite (<= sz a) sz (- 1)))))))))
(define-fun fixedValue ((a Int) (n Int)) Int (ite (>= a n) n (- 1)))
(define-fun valueSize ((M (Array Int Int)) (lo Int) (e Int)) Int
  (let ((a (- e lo)) (e1 (- e 1)))
    (ite (<= a 0) (- 1)
      (let ((t (select M e1)))
        (ite (or (= t 1) (= t 2)) 1
        (ite (= t 3) (fixedValue a 2)
        (ite (or (= t 10) (= t 11) (= t 12) (= t 20) (= t 21) (= t 22))
             (let ((m (varintSize M lo e1))) (ite (< m 0) (- 1) (+ 1 m)))
        (ite (= t 40) (fixedValue a 5)
        (ite (or (= t 41) (= t 30)) (fixedValue a 9)
        (ite (= t 31) (fixedValue a 17)
        (ite (= t 32) (fixedValue a 33)
        (ite (or (= t 50) (= t 90)) (sizedValue M lo e1 a 0)
        (ite (= t 60) (sizedValue M lo e1 a 1)
        (ite (or (= t 70) (= t 71) (= t 80) (= t 81)) (tabledValue M lo e1 a)
             (- 1)))))))))))))))
; ---- tables
; smallTag / bigTag are uninterpreted with a definitional axiom so that quantified clauses over
; table entries have a clean E-matching trigger (patterns over (* 3 k) do not match reliably).
;@proof-only
(declare-fun smallTag ((Array Int Int) Int Int) Int)
(assert (forall ((T (Array Int Int)) (s Int) (k Int)) (! (= (smallTag T s k) (select T (+ s (* 3 k)))) :pattern ((smallTag T s k)))))
;@end
;@model (define-fun smallTag ((T (Array Int Int)) (s Int) (k Int)) Int (select T (+ s (* 3 k))))
(define-fun smallOff ((T (Array Int Int)) (s Int) (k Int)) Int (be16 T (+ s (* 3 k) 1)))
;@proof-only
(declare-fun bigTag ((Array Int Int) Int Int) Int)
(assert (forall ((T (Array Int Int)) (s Int) (k Int)) (! (= (bigTag T s k) (be16 T (+ s (* 6 k)))) :pattern ((bigTag T s k)))))
;@end
;@model (define-fun bigTag ((T (Array Int Int)) (s Int) (k Int)) Int (be16 T (+ s (* 6 k))))
(define-fun bigOff   ((T (Array Int Int)) (s Int) (k Int)) Int (be32 T (+ s (* 6 k) 2)))
(define-fun listSmallEnd ((T (Array Int Int)) (s Int) (k Int)) Int (be16 T (+ s (* 2 k))))
(define-fun listBigEnd   ((T (Array Int Int)) (s Int) (k Int)) Int (be32 T (+ s (* 4 k))))
; ---- floats (IEEE-754 through the SMT floating-point theory; one NaN value, +0 and -0 distinct)
; Bit reinterpretation is kept ABSTRACT: f32OfBits / f64OfBits (bits -> value) and f32bits / f64bits
; (value -> bits) are uninterpreted, related only by "reading back the bits of a value gives the
; value" and the bit-pattern range. The codecs treat the pattern as opaque bytes, so nothing else
; is needed, and no int<->bit-vector conversion ever reaches the solver.
(declare-fun f32OfBits (Int) (_ FloatingPoint 8 24))
(declare-fun f64OfBits (Int) (_ FloatingPoint 11 53))
(declare-fun f32bits ((_ FloatingPoint 8 24)) Int)
(declare-fun f64bits ((_ FloatingPoint 11 53)) Int)
(assert (forall ((x (_ FloatingPoint 8 24))) (! (and (= (f32OfBits (f32bits x)) x) (<= 0 (f32bits x)) (<= (f32bits x) 4294967295)) :pattern ((f32bits x)))))
(assert (forall ((x (_ FloatingPoint 11 53))) (! (and (= (f64OfBits (f64bits x)) x) (<= 0 (f64bits x)) (<= (f64bits x) 18446744073709551615)) :pattern ((f64bits x)))))
(define-fun f64of32 ((x (_ FloatingPoint 8 24))) (_ FloatingPoint 11 53) ((_ to_fp 11 53) RNE x))
(define-fun f32of64 ((x (_ FloatingPoint 11 53))) (_ FloatingPoint 8 24) ((_ to_fp 8 24) RNE x))
; largest finite float32 as a float64: 0x47EFFFFFE0000000
(define-fun maxF32as64 () (_ FloatingPoint 11 53) (fp #b0 #b10001111110 #b1111111111111111111111100000000000000000000000000000))
(define-fun fitsF32 ((x (_ FloatingPoint 11 53))) Bool
  (or (fp.isNaN x) (fp.isInfinite x) (and (fp.leq x maxF32as64) (fp.leq (fp.neg maxF32as64) x))))
(define-fun isPosInf64 ((x (_ FloatingPoint 11 53))) Bool (and (fp.isInfinite x) (fp.isPositive x)))
(define-fun isNegInf64 ((x (_ FloatingPoint 11 53))) Bool (and (fp.isInfinite x) (fp.isNegative x)))
; ---- client reconnect back-off (C19), in nanoseconds: min(1 s, 25 ms * (2^a - 2)) for the
; attempts the client sleeps on (a >= 2); written out as a table up to the cap
(define-fun backoffNs ((a Int)) Int
  (ite (= a 2) 50000000 (ite (= a 3) 150000000 (ite (= a 4) 350000000 (ite (= a 5) 750000000 1000000000)))))

; ---- identity of a byte view (object, offset, length): the key of ghost attributes of a parsed
; message (its code, its status strings). Uninterpreted: obligations hold for every interpretation,
; in particular the injective one.
(declare-fun viewId (Int Int Int) Int)

; ---- recursive validity (C02: "accepted by the parser ==> valid all the way down")
; Layout of a list / message value ending at e (from the statement: body, table, varint(dataSize),
; varint(tableSize), type code), in the same terms the table decoders' contracts use.
(define-fun tM1 ((M (Array Int Int)) (lo Int) (e Int)) Int (sizeFieldSize M lo (- e 1)))
(define-fun tTS ((M (Array Int Int)) (lo Int) (e Int)) Int (varintVal M (- e 1) (tM1 M lo e)))
(define-fun tM2 ((M (Array Int Int)) (lo Int) (e Int)) Int (sizeFieldSize M lo (- (- e 1) (tM1 M lo e))))
(define-fun tDS ((M (Array Int Int)) (lo Int) (e Int)) Int (varintVal M (- (- e 1) (tM1 M lo e)) (tM2 M lo e)))
(define-fun tTab ((M (Array Int Int)) (lo Int) (e Int)) Int (- (- (- (- e 1) (tM1 M lo e)) (tM2 M lo e)) (tTS M lo e)))
(define-fun tDat ((M (Array Int Int)) (lo Int) (e Int)) Int (- (tTab M lo e) (tDS M lo e)))
; element i of a list: [lElemLo, lElemHi) when lElemOK (a non-empty range inside the data)
(define-fun lN ((M (Array Int Int)) (lo Int) (e Int)) Int (div (tTS M lo e) (ite (= (select M (- e 1)) 71) 4 2)))
(define-fun lEndRel ((M (Array Int Int)) (lo Int) (e Int) (i Int)) Int
  (ite (= (select M (- e 1)) 71) (listBigEnd M (tTab M lo e) i) (listSmallEnd M (tTab M lo e) i)))
(define-fun lStartRel ((M (Array Int Int)) (lo Int) (e Int) (i Int)) Int (ite (= i 0) 0 (lEndRel M lo e (- i 1))))
(define-fun lElemOK ((M (Array Int Int)) (lo Int) (e Int) (i Int)) Bool
  (and (< (lStartRel M lo e i) (lEndRel M lo e i)) (<= (lEndRel M lo e i) (tDS M lo e))))
(define-fun lElemLo ((M (Array Int Int)) (lo Int) (e Int) (i Int)) Int (+ (tDat M lo e) (lStartRel M lo e i)))
(define-fun lElemHi ((M (Array Int Int)) (lo Int) (e Int) (i Int)) Int (+ (tDat M lo e) (lEndRel M lo e i)))
; field i of a message: the prefix of the data that ends at the field's offset
(define-fun mN ((M (Array Int Int)) (lo Int) (e Int)) Int (div (tTS M lo e) (ite (= (select M (- e 1)) 81) 6 3)))
(define-fun mOff ((M (Array Int Int)) (lo Int) (e Int) (i Int)) Int
  (ite (= (select M (- e 1)) 81) (bigOff M (tTab M lo e) i) (smallOff M (tTab M lo e) i)))
(define-fun mFieldOK ((M (Array Int Int)) (lo Int) (e Int) (i Int)) Bool
  (and (< 0 (mOff M lo e i)) (<= (mOff M lo e i) (tDS M lo e))))
(define-fun mFieldHi ((M (Array Int Int)) (lo Int) (e Int) (i Int)) Int (+ (tDat M lo e) (mOff M lo e i)))
; validV(M, lo, e): a valid value ends at e inside [lo, e). Only introduction rules are given (the
; least predicate closed under them is the meaning); a proof of validV has to establish the premises.
; lElemValid / mFieldValid wrap "element i / field i is absent or valid" in an uninterpreted
; predicate with a definitional axiom, so that quantified clauses over i have a clean trigger.
(declare-fun validV ((Array Int Int) Int Int) Bool)
(declare-fun lElemValid ((Array Int Int) Int Int Int) Bool)
(declare-fun mFieldValid ((Array Int Int) Int Int Int) Bool)
(assert (forall ((M (Array Int Int)) (lo Int) (e Int) (i Int)) (! (= (lElemValid M lo e i) (=> (lElemOK M lo e i) (validV M (lElemLo M lo e i) (lElemHi M lo e i)))) :pattern ((lElemValid M lo e i)))))
(assert (forall ((M (Array Int Int)) (lo Int) (e Int) (i Int)) (! (= (mFieldValid M lo e i) (=> (mFieldOK M lo e i) (validV M (tDat M lo e) (mFieldHi M lo e i)))) :pattern ((mFieldValid M lo e i)))))
(assert (forall ((M (Array Int Int)) (lo Int) (e Int)) (! (=> (and (> (valueSize M lo e) 0) (not (= (select M (- e 1)) 70)) (not (= (select M (- e 1)) 71)) (not (= (select M (- e 1)) 80)) (not (= (select M (- e 1)) 81))) (validV M lo e)) :pattern ((validV M lo e)))))
(assert (forall ((M (Array Int Int)) (lo Int) (e Int)) (! (=> (and (> (valueSize M lo e) 0) (or (= (select M (- e 1)) 70) (= (select M (- e 1)) 71)) (forall ((i Int)) (! (=> (and (<= 0 i) (< i (lN M lo e))) (lElemValid M lo e i)) :pattern ((lElemValid M lo e i))))) (validV M lo e)) :pattern ((validV M lo e)))))
(assert (forall ((M (Array Int Int)) (lo Int) (e Int)) (! (=> (and (> (valueSize M lo e) 0) (or (= (select M (- e 1)) 80) (= (select M (- e 1)) 81)) (forall ((i Int)) (! (=> (and (<= 0 i) (< i (mN M lo e))) (mFieldValid M lo e i)) :pattern ((mFieldValid M lo e i))))) (validV M lo e)) :pattern ((validV M lo e)))))
