#!/usr/bin/env python3
"""Two-pass tuning of the generated C17 clauses: a function whose plain `noalloc[C17]` (no
allocation on every return without error) is refuted because it DISCARDS a callee's error gets the
weaker `noalloc[C17] noerr && calleesok` (no allocation when, in addition, no callee reported an
error). Run after gen_noalloc.py; prints what it weakened."""
import re,subprocess,sys
FILES=['/repo/internal/types/contracts_verif.go','/repo/internal/decode/contracts_verif.go','/repo/internal/format/contracts_verif.go']
def failing():
    out=subprocess.run(['/verif/bin/govc','verify','--prop','C17'],capture_output=True,text=True).stdout
    return set(re.findall(r'refuted\s+(\S+)#noalloc',out))|set(re.findall(r'undecided\s+(\S+)#noalloc',out))
def short(key):  # types.(Message).Int32 -> (Message).Int32
    return key.split('.',1)[1]
for rnd in range(4):
    f=failing()
    if not f: break
    names={short(k) for k in f}
    changed=0
    for p in FILES:
        lines=open(p).read().split('\n'); cur=None
        for i,l in enumerate(lines):
            m=re.match(r'^//@ func (\S+)',l)
            if m: cur=m.group(1)
            if l.strip()=='//@   noalloc[C17]' and cur in names:
                lines[i]='//@   noalloc[C17] noerr && calleesok'; changed+=1; print('weakened',cur)
        open(p,'w').write('\n'.join(lines))
    if not changed: break
print('still failing:',sorted(failing()))
