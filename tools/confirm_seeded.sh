#!/bin/bash
# usage: confirm_seeded.sh <name> <property> <worktree> <demo-file-relative> <go test package pattern> <run regex> "<needs>"
# Confirms in the scratch worktree: demo FAILS with the change, PASSES without it, and the pinned
# test suite still passes with the change (demo moved aside). Then stores /verif/seeded/<name>/.
set -u
name=$1; prop=$2; wt=$3; demo=$4; pkg=$5; run=$6; needs=$7
export PATH=/opt/veriftools/go1.26.8/bin:$PATH GOTOOLCHAIN=local GOFLAGS=-mod=mod GOPROXY=off
cd "$wt" || exit 2
git diff > /tmp/seed_$name.diff
[ -s /tmp/seed_$name.diff ] || { echo "no library change in worktree"; exit 2; }
go test -vet=off -count=1 -run "$run" $pkg > /tmp/seed_with.txt 2>&1; with=$?
git apply -R /tmp/seed_$name.diff   # (git stash is shared between worktrees: never use it here)
go test -vet=off -count=1 -run "$run" $pkg > /tmp/seed_without.txt 2>&1; without=$?
git apply /tmp/seed_$name.diff
mv "$demo" /tmp/seed_demo_$name.go
go test -vet=off -count=1 ./internal/decode/... ./internal/lang/parser/... ./internal/writer/... ./mpx/... ./rpc/... > /tmp/seed_suite.txt 2>&1; suite=$?
mv /tmp/seed_demo_$name.go "$demo"
echo "demo with change: exit $with (expect != 0); without: exit $without (expect 0); suite with change: exit $suite (expect 0)"
if [ $with -ne 0 ] && [ $without -eq 0 ] && [ $suite -eq 0 ]; then
  d=/verif/seeded/$name; mkdir -p $d
  cp /tmp/seed_$name.diff $d/patch.diff
  cp "$demo" $d/$(basename "$demo").txt
  python3 - "$name" "$prop" "$demo" "$pkg" "$run" "$needs" <<'PY'
import json,sys
name,prop,demo,pkg,run,needs=sys.argv[1:7]
json.dump({"name":name,"breaks_property":prop,"needs_to_manifest":needs,
 "demo_file":demo,"demo_cmd":"go test -vet=off -count=1 -run '%s' %s"%(run,pkg),
 "confirmed":{"demo_with_change":"FAIL","demo_without_change":"PASS","pinned_suite_with_change":"PASS (internal/decode, internal/lang/parser, internal/writer, mpx, rpc)"},
 "source":"independent sub-agent given only the property text and a scratch worktree"},
 open('/verif/seeded/%s/meta.json'%name,'w'),indent=1)
PY
  echo "stored $d"
else
  echo "NOT CONFIRMED"; tail -5 /tmp/seed_with.txt /tmp/seed_without.txt /tmp/seed_suite.txt
fi
