package main

import (
	"go/types"
	"strings"
	"sync"

	"golang.org/x/tools/go/ssa"
)

var globalsMu sync.Mutex

// initOnlyGlobal reports whether every store to the package-level variable g happens in a
// package initialiser (init or a function literal inside it).
func (e *Engine) initOnlyGlobal(g *ssa.Global) bool {
	globalsMu.Lock()
	defer globalsMu.Unlock()
	if e.globalInit == nil {
		e.globalInit = map[*ssa.Global]bool{}
	}
	if v, ok := e.globalInit[g]; ok {
		return v
	}
	ok := true
	pkg := g.Pkg
	check := func(fn *ssa.Function) {
		inInit := fn.Name() == "init" || strings.HasPrefix(fn.Name(), "init#") || strings.HasPrefix(fn.Name(), "init$")
		for _, b := range fn.Blocks {
			for _, ins := range b.Instrs {
				if st, isStore := ins.(*ssa.Store); isStore && st.Addr == ssa.Value(g) && !inInit {
					ok = false
				}
			}
		}
	}
	var visit func(fn *ssa.Function)
	visit = func(fn *ssa.Function) {
		check(fn)
		for _, a := range fn.AnonFuncs {
			visit(a)
		}
	}
	if pkg != nil {
		for _, m := range pkg.Members {
			if fn, isFn := m.(*ssa.Function); isFn {
				visit(fn)
			}
			if t, isT := m.(*ssa.Type); isT {
				for _, T := range []types.Type{t.Type(), types.NewPointer(t.Type())} {
					ms := e.prog.MethodSets.MethodSet(T)
					for i := 0; i < ms.Len(); i++ {
						if fn := e.prog.MethodValue(ms.At(i)); fn != nil {
							visit(fn)
						}
					}
				}
			}
		}
	}
	e.globalInit[g] = ok
	return ok
}
