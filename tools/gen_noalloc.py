#!/usr/bin/env python3
"""Adds the C17 allocation-effect clause `noalloc[C17]` (no heap allocation on every return without
error) to every function contract of the read side: internal/decode, internal/format,
internal/types, and to the verified dependency functions they call (compactint, encoding/binary,
bin). Idempotent. Functions listed in SKIP allocate by design (clone / builder helpers)."""
import re,sys
FILES=['/repo/internal/decode/contracts_verif.go','/repo/internal/format/contracts_verif.go','/repo/internal/types/contracts_verif.go',
       '/verif/contracts/ext/compactint.go','/verif/contracts/ext/binary.go','/verif/contracts/ext/bin.go','/verif/contracts/ext/binary_put.go']
SKIP=set(sys.argv[1:])|{'(String).Clone'}
for p in FILES:
    lines=open(p).read().split('\n')
    out=[];i=0
    while i<len(lines):
        l=lines[i]; out.append(l)
        m=re.match(r'^//@ func (\S+)',l)
        if m:
            j=i+1; blk=[]
            while j<len(lines) and lines[j].startswith('//@') and not re.match(r'^//@ (func|iface|package|define|global)',lines[j]):
                blk.append(lines[j]); j+=1
            has=any('noalloc' in b for b in blk)
            out+=blk
            if not has and m.group(1) not in SKIP:
                out.append('//@   noalloc[C17]')
            i=j; continue
        i+=1
    open(p,'w').write('\n'.join(out))
