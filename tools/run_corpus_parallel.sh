#!/bin/bash
# Runs every seeded / must-fail patch against the check of the property it breaks, in parallel:
# each worker owns a scratch git worktree of /repo under /tmp (removed at the end), applies a
# patch there, runs `govc check --repo <worktree>`, and reverts it. /repo itself is not touched.
# usage: run_corpus_parallel.sh [name-substring] [workers]
cd /verif
sub="${1:-}"; N="${2:-8}"
list=$(mktemp)
for d in seeded/*/ selftest/mustfail/*.diff; do
  case "$d" in
    seeded/*) name=$(basename $d); patch=/verif/$d/patch.diff; prop=$(python3 -c "import json;m=json.load(open('$d/meta.json'));print(m.get('check_property',m['breaks_property']))");;
    *) name=$(basename $d .diff); patch=/verif/$d; prop=${name%%-*};;
  esac
  [ -n "$sub" ] && [[ "$name" != *"$sub"* ]] && continue
  echo "$name $patch $prop" >> $list
done
total=$(wc -l < $list)
worker() {
  i=$1; wt=/tmp/vw_corpus_$i
  git -C /repo worktree remove --force $wt 2>/dev/null; rm -rf $wt
  git -C /repo worktree add -q --detach $wt HEAD || exit 1
  n=0
  while read name patch prop; do
    n=$((n+1)); [ $(( (n-1) % N )) -ne $i ] && continue
    if ! git -C $wt apply --check $patch 2>/dev/null; then echo "SKIP $name (patch does not apply)"; continue; fi
    git -C $wt apply $patch
    out=$(VERIF_OUT_SUFFIX=-w$i ${GOVC:-./bin/govc} check --repo $wt --property $prop --no-evidence 2>&1); rc=$?
    git -C $wt checkout -q -- . ; git -C $wt clean -fdq
    nv=$(echo "$out" | grep -c '^VIOLATION')
    nc=$(echo "$out" | grep '^VIOLATION' | grep -vc 'no-failing-input-found')
    echo "$name [$prop]: exit $rc, $nv violation line(s), $nc with confirmed replay: $(echo "$out" | grep '^VIOLATION' | head -2 | sed 's/.*obligation=//; s/ status=[a-z]*//; s/ no-failing-input-found//' | tr '\n' ' ')"
  done < $list
  git -C /repo worktree remove --force $wt; rm -rf /verif/out/*-w$i
}
for i in $(seq 0 $((N-1))); do worker $i & done
wait
git -C /repo worktree prune
rm -f $list
echo "corpus: $total patches"
