//go:build verif

// ASSUMED contracts of baselibrary/opt.Opt (three-line generic methods; not verified because the
// engine binds contracts to non-generic functions).
package ext

//@ package github.com/basecomplextech/baselibrary/opt

//@ func (Opt).Unwrap
//@   trusted
//@   ensures (result1 <==> o.Valid) && result0 == o.Value
//@ func (*Opt).Set
//@   trusted
//@   modifies opt.*
//@   ensures o.Valid
//@ func (*Opt).Clear
//@   trusted
//@   modifies opt.*
//@   ensures !o.Valid && (result1 <==> old(o.Valid)) && result0 == old(o.Value)
