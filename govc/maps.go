package main

import (
	"fmt"
	"go/types"

	"golang.org/x/tools/go/ssa"
)

// Maps. A map value is an object id (KRef, 0 = nil map). Its content lives in two memories per
// map type M = map[K]V:  "maphas.<M>" (obj, key) -> Bool and "mapval.<M>" (obj, key) -> V (leaves
// as for any stored V). Keys are integers (themselves) or strings (by CONTENT: skey(strid, len),
// the empty string is key 0). Other key types are outside the subset. Iteration (range over a
// map) is outside the subset; len(m) is an arbitrary non-negative number.

func mapName(T types.Type) string {
	return sanitize(types.TypeString(T.Underlying(), func(p *types.Package) string { return p.Name() }))
}

func (vc *VC) mapKey(k SVal, KT types.Type) string {
	switch k.K {
	case KInt:
		return k.S
	case KString:
		if !vc.declared["skey"] {
			vc.declared["skey"] = true
			vc.emit("(declare-fun skey (Int Int) Int)\n(declare-fun skey1 (Int) Int)\n(declare-fun skey2 (Int) Int)")
			vc.emit("(assert (forall ((a Int) (b Int)) (! (and (> (skey a b) 0) (= (skey1 (skey a b)) a) (= (skey2 (skey a b)) b)) :pattern ((skey a b)))))")
		}
		vc.stridDecl()
		return ite(eq(k.ln(), "0"), "0", sx("skey", sx("strid", k.obj(), k.off(), k.ln()), k.ln()))
	}
	unsup("map with key type %v", KT)
	return ""
}

func (vc *VC) mapParts(m SVal, MT *types.Map, k SVal) (hasKey, valKey, key string, p SVal) {
	n := mapName(MT)
	hasKey, valKey = "maphas."+n, "mapval."+n
	key = vc.mapKey(k, MT.Key())
	p = ptrV(types.NewPointer(MT.Elem()), m.S, key)
	p.Key = valKey
	if st, isSt := MT.Elem().Underlying().(*types.Struct); isSt && st.NumFields() > 0 {
		unsup("map with struct values (%v)", MT)
	}
	return
}

func (vc *VC) mapHas(mem *Mem, m SVal, MT *types.Map, k SVal) string {
	hasKey, _, key, _ := vc.mapParts(m, MT, k)
	return and(not(eq(m.S, "0")), vc.leafLoad(mem, hasKey, SBool, m.S, key))
}

func (vc *VC) mapGet(mem *Mem, m SVal, MT *types.Map, k SVal) SVal {
	_, _, _, p := vc.mapParts(m, MT, k)
	return vc.iteVal(vc.mapHas(mem, m, MT, k), vc.loadSpec(p, MT.Elem(), mem), vc.zero(MT.Elem()))
}

func (vc *VC) mapLookup(x *ssa.Lookup) SVal {
	MT := x.X.Type().Underlying().(*types.Map)
	m, k := vc.val(x.X), vc.val(x.Index)
	v := vc.mapGet(vc.curMem, m, MT, k)
	if !x.CommaOk {
		return v
	}
	return SVal{K: KTuple, T: x.Type(), F: []SVal{v, boolV(vc.mapHas(vc.curMem, m, MT, k))}}
}

func (vc *VC) mapUpdate(x *ssa.MapUpdate) {
	MT := x.Map.Type().Underlying().(*types.Map)
	m, k, v := vc.val(x.Map), vc.val(x.Key), vc.val(x.Value)
	R := vc.R[vc.cur]
	vc.oblige("nil", R, not(eq(m.S, "0")), x.Pos(), "assignment to entry in nil map")
	hasKey, _, key, p := vc.mapParts(m, MT, k)
	vc.leafStore(vc.curMem, hasKey, SBool, m.S, key, "true")
	vc.store(p, MT.Elem(), vc.coerce(v, MT.Elem()), vc.curMem)
}

func (vc *VC) makeMap(x *ssa.MakeMap) SVal {
	MT := x.Type().Underlying().(*types.Map)
	id := vc.newObj()
	hasKey := "maphas." + mapName(MT)
	M := vc.memGet(vc.curMem, hasKey, SBool)
	vc.emit(fmt.Sprintf("(assert (forall ((k Int)) (! (not (select (select %s %s) k)) :pattern ((select (select %s %s) k)))))", M, id, M, id))
	return refV(id, x.Type())
}

func (vc *VC) mapDelete(m, k SVal, MT *types.Map) {
	hasKey, _, key, _ := vc.mapParts(m, MT, k)
	// delete on a nil map is a no-op
	M := vc.memGet(vc.curMem, hasKey, SBool)
	vc.checkLoopStore(hasKey, m.S)
	vc.curMem.m[hasKey] = vc.def("M_"+hasKey, memSort(SBool), ite(eq(m.S, "0"), M, sto(M, m.S, sto(sel(M, m.S), key, "false"))))
}

// unboxVal: the payload of interface value v seen as concrete type T (meaningful when the dynamic
// type of v is T): leaves are the uninterpreted functions unbox_<typeid>_<i>(v).
func (vc *VC) unboxVal(v SVal, T types.Type) SVal {
	i := 0
	r := vc.build(T, "", func(path string, sort Sort, lt types.Type) string {
		fn := fmt.Sprintf("unbox_%d_%d", vc.eng.typeID(T), i)
		if !vc.declared[fn] {
			vc.declared[fn] = true
			vc.emit(fmt.Sprintf("(declare-fun %s (Int) %s)", fn, sort))
		}
		i++
		return sx(fn, v.S)
	})
	vc.fact("true", vc.typeFacts(r))
	return r
}

// deadEdge: the edge p -> b is never taken because p ends in a branch on a constant (if debug {...}
// with a constant flag: go/ssa keeps the dead block).
func deadEdge(p, b *ssa.BasicBlock) bool {
	iff, ok := p.Instrs[len(p.Instrs)-1].(*ssa.If)
	if !ok {
		return false
	}
	c, ok := iff.Cond.(*ssa.Const)
	if !ok || c.Value == nil {
		return false
	}
	taken := p.Succs[1]
	if c.Value.String() == "true" {
		taken = p.Succs[0]
	}
	return b != taken
}

// expandMods: a 'modifies K' clause naming a struct field whose value has several leaves (pointer,
// string, slice) stands for all its leaf memories K#o, K#f, K#l, K#c.
func (e *Engine) expandMods() {
	leaves := map[string][]string{}
	for _, p := range e.prog.AllPackages() {
		if p.Pkg == nil {
			continue
		}
		sc := p.Pkg.Scope()
		for _, n := range sc.Names() {
			tn, ok := sc.Lookup(n).(*types.TypeName)
			if !ok {
				continue
			}
			st, ok := tn.Type().Underlying().(*types.Struct)
			if !ok {
				continue
			}
			for i := 0; i < st.NumFields(); i++ {
				key := typeKey(tn.Type()) + "." + st.Field(i).Name()
				switch u := st.Field(i).Type().Underlying().(type) {
				case *types.Pointer:
					leaves[key] = []string{"#o", "#f"}
				case *types.Slice:
					leaves[key] = []string{"#o", "#f", "#l", "#c"}
				case *types.Basic:
					if u.Info()&types.IsString != 0 {
						leaves[key] = []string{"#o", "#f", "#l"}
					}
				}
			}
		}
	}
	for _, c := range e.contracts.M {
		var out []Modifies
		for _, m := range c.Mods {
			if sfx, ok := leaves[m.Key]; ok {
				for _, s := range sfx {
					m2 := m
					m2.Key = m.Key + s
					out = append(out, m2)
				}
				continue
			}
			out = append(out, m)
		}
		c.Mods = out
	}
}

// namedType resolves T or pkg.T in a contract expression to a named type: T in the package of the
// function under verification, pkg.T in one of the packages it imports (by package name).
func (vc *VC) namedType(e Expr) types.Type {
	if vc.fn.Pkg == nil {
		unsup("type name in a contract of a function without package")
	}
	switch x := e.(type) {
	case *EIdent:
		if o := vc.fn.Pkg.Pkg.Scope().Lookup(x.Name); o != nil {
			if tn, ok := o.(*types.TypeName); ok {
				return tn.Type()
			}
		}
		unsup("no type %s in package %s", x.Name, vc.fn.Pkg.Pkg.Path())
	case *EField:
		if id, ok := x.X.(*EIdent); ok {
			for _, imp := range vc.fn.Pkg.Pkg.Imports() {
				if imp.Name() == id.Name {
					if o := imp.Scope().Lookup(x.Name); o != nil {
						if tn, ok := o.(*types.TypeName); ok {
							return tn.Type()
						}
					}
				}
			}
			unsup("no type %s.%s among the imports of %s", id.Name, x.Name, vc.fn.Pkg.Pkg.Path())
		}
	}
	unsup("type name expected, got %s", e)
	return nil
}
