#!/bin/bash
# Runs the repository's pinned baseline test suite (guard OFF: no build tags) and prints a pass/fail summary.
# Same command as /root/.vp/BASELINE.json "cmd" (single module at the repository root).
cd /repo || exit 2
out=$(go test -mod=mod -json -vet=off -count=1 -timeout 25m ./... 2>&1)
echo "$out" | python3 -c '
import sys,json
p=f=0; failed=[]
for l in sys.stdin:
    try: e=json.loads(l)
    except Exception: continue
    if e.get("Test") and e.get("Action")=="pass": p+=1
    if e.get("Test") and e.get("Action")=="fail": f+=1; failed.append(e["Package"]+"::"+e["Test"])
print("passed",p,"failed",f)
for x in failed: print("FAIL",x)
sys.exit(1 if f else 0)
'
