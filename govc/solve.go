package main

import (
	"bytes"
	"context"
	"fmt"
	"os"
	"os/exec"
	"path/filepath"
	"strconv"
	"strings"
	"sync"
	"time"
)

type Solver struct {
	Name string
	Bin  string
	Args func(timeoutSec int) []string
}

var solvers = []Solver{
	{"z3-5.1.0", "z3-new", func(t int) []string { return []string{fmt.Sprintf("-T:%d", t), "-smt2"} }},
	{"z3-4.8.12", "/usr/bin/z3", func(t int) []string { return []string{fmt.Sprintf("-T:%d", t), "-smt2"} }},
	{"cvc5-1.0", "cvc5", func(t int) []string {
		return []string{fmt.Sprintf("--tlimit=%d", t*1000), "--lang=smt2", "--full-saturate-quant", "--incremental"}
	}},
}

const scriptHeader = "(set-option :produce-models true)\n(set-logic ALL)\n"

func obligQuery(o *Oblig) string {
	return fmt.Sprintf("(push 1)\n(assert %s)\n(assert (not %s))\n(check-sat)\n(pop 1)\n", o.Guard, o.Goal)
}

func runSolver(s Solver, file string, timeoutSec int) (string, float64) {
	return runSolverCtx(context.Background(), s, file, timeoutSec)
}

func runSolverCtx(parent context.Context, s Solver, file string, timeoutSec int) (string, float64) {
	ctx, cancel := context.WithTimeout(parent, time.Duration(timeoutSec+5)*time.Second)
	defer cancel()
	args := append(s.Args(timeoutSec), file)
	cmd := exec.CommandContext(ctx, s.Bin, args...)
	var out bytes.Buffer
	cmd.Stdout = &out
	cmd.Stderr = &out
	t0 := time.Now()
	cmd.Run()
	return out.String(), time.Since(t0).Seconds()
}

func parseAnswers(out string) (answers []string, errs []string) {
	for _, l := range strings.Split(out, "\n") {
		l = strings.TrimSpace(l)
		switch {
		case l == "sat" || l == "unsat" || l == "unknown" || l == "timeout":
			answers = append(answers, l)
		case strings.HasPrefix(l, "(error"):
			// z3 4.8 prints an error for get-model after unsat; ignore those
			if strings.Contains(l, "model is not available") || strings.Contains(l, "canceled") || strings.Contains(l, "timeout") {
				continue // a cancelled query is an unanswered one, not a malformed script
			}
			errs = append(errs, l)
		}
	}
	return
}

type solveCfg struct {
	outDir     string
	timeoutSec int
	thorough   bool
	par        int
}

// solveFunc discharges the selected obligations of one function.
func (e *Engine) solveFunc(fr *FuncResult, obs []*Oblig, cfg solveCfg) error {
	if len(obs) == 0 {
		return nil
	}
	base := filepath.Join(cfg.outDir, sanitize(fr.Short))
	// An obligation is checked against the script prefix that existed when it arose (ScriptPos):
	// facts derived later - in particular the obligation's own clause, once assumed - are not
	// available to it.
	head := scriptHeader + e.prelude
	commonFor := func(o *Oblig) string {
		p := o.ScriptPos
		if p > len(fr.Script) {
			p = len(fr.Script)
		}
		return head + fr.Script[:p]
	}
	// two batches run side by side: the real obligations, and the guards (covers and canaries),
	// which are expected to be satisfiable and get a short per-query budget
	var mainObs, guardObs, coverObs []*Oblig
	for _, o := range obs {
		switch {
		case o.Cover:
			coverObs = append(coverObs, o)
		case o.Canary:
			guardObs = append(guardObs, o)
		default:
			mainObs = append(mainObs, o)
		}
	}
	runBatch := func(list []*Oblig, perQueryMs int, tag string) (map[*Oblig]string, float64, error) {
		ans := map[*Oblig]string{}
		if len(list) == 0 {
			return ans, 0, nil
		}
		var bb strings.Builder
		bb.WriteString(head)
		pos := 0
		for _, o := range list {
			p := o.ScriptPos
			if p > len(fr.Script) {
				p = len(fr.Script)
			}
			if p > pos {
				bb.WriteString(fr.Script[pos:p])
				pos = p
			}
			bb.WriteString("; " + o.Name + "\n" + obligQuery(o))
		}
		batch := bb.String()
		if tag == "covers" {
			// Covers ask for satisfiability; with quantified axioms the solver answers "unknown".
			// They are therefore checked without the quantified assertions: "unsat" there implies
			// unsat with them (a vacuous precondition or path is still caught), "sat" means the
			// point is reachable modulo the quantified axioms (ranges, frames).
			var kept []string
			for _, l := range strings.Split(batch, "\n") {
				if strings.HasPrefix(l, "(assert ") && (strings.Contains(l, "(forall ") || strings.Contains(l, "(exists ")) {
					continue
				}
				kept = append(kept, l)
			}
			batch = strings.Join(kept, "\n")
		}
		file := base + "." + tag + ".smt2"
		if err := os.WriteFile(file, []byte(batch), 0o644); err != nil {
			return nil, 0, err
		}
		out, secs := runSolver(Solver{"z3-5.1.0", "z3-new", func(t int) []string {
			return []string{fmt.Sprintf("-t:%d", perQueryMs), fmt.Sprintf("-T:%d", t), "-smt2"}
		}}, file, perQueryMs*len(list)/1000+10)
		answers, errs := parseAnswers(out)
		if len(errs) > 0 {
			return nil, 0, fmt.Errorf("solver error on %s: %s", file, strings.Join(errs, "; "))
		}
		for i, o := range list {
			a := "unknown"
			if i < len(answers) {
				a = answers[i]
			}
			ans[o] = a
		}
		return ans, secs / float64(len(list)), nil
	}
	var gAns map[*Oblig]string
	var gPer float64
	var gErr error
	gdone := make(chan struct{})
	go func() {
		gAns, gPer, gErr = runBatch(guardObs, 2000, "guards")
		if gErr == nil {
			cAns, cPer, cErr := runBatch(coverObs, 2000, "covers")
			gErr = cErr
			for k, v := range cAns {
				gAns[k] = v
			}
			if len(guardObs) == 0 {
				gPer = cPer
			}
		}
		close(gdone)
	}()
	mAns, mPer, mErr := runBatch(mainObs, cfg.timeoutSec*1000, "batch")
	<-gdone
	if mErr != nil {
		return mErr
	}
	if gErr != nil {
		return gErr
	}
	var rest []*Oblig
	for _, o := range obs {
		a, per := mAns[o], mPer
		if o.Cover || o.Canary {
			a, per = gAns[o], gPer
		}
		o.Seconds = per
		o.Solver = "z3-5.1.0"
		switch a {
		case "unsat":
			o.Status = "discharged"
		default:
			o.Status = "undecided"
			if a == "sat" {
				o.Status = "refuted"
			}
			if o.Cover || o.Canary {
				continue // expected not to be unsat; no portfolio needed
			}
			rest = append(rest, o)
		}
	}
	// individual portfolio for everything not discharged in the batch
	var wg sync.WaitGroup
	sem := make(chan struct{}, cfg.par)
	for _, o := range rest {
		wg.Add(1)
		go func(o *Oblig) {
			defer wg.Done()
			sem <- struct{}{}
			defer func() { <-sem }()
			e.solveOne(commonFor(o), base, o, cfg)
		}(o)
	}
	wg.Wait()
	if cfg.thorough {
		// every discharged obligation must be confirmed by a second, different solver binary
		for _, o := range obs {
			if o.Status != "discharged" || o.Cover || o.Canary {
				continue
			}
			wg.Add(1)
			go func(o *Oblig) {
				defer wg.Done()
				sem <- struct{}{}
				defer func() { <-sem }()
				e.confirm(commonFor(o), base, o, cfg)
			}(o)
		}
		wg.Wait()
	}
	return nil
}

func (e *Engine) solveOne(common, base string, o *Oblig, cfg solveCfg) {
	file := base + "." + sanitize(o.Name[strings.Index(o.Name, "#")+1:]) + ".smt2"
	q := common + "; " + o.Name + "\n" + fmt.Sprintf("(assert %s)\n(assert (not %s))\n(check-sat)\n(get-model)\n", o.Guard, o.Goal)
	os.WriteFile(file, []byte(q), 0o644)
	type ans struct {
		solver string
		a      string
		out    string
		secs   float64
	}
	ch := make(chan ans, len(solvers))
	race, stopRace := context.WithCancel(context.Background())
	defer stopRace() // the first decisive answer (unsat or sat) ends the race
	for _, s := range solvers {
		go func(s Solver) {
			// the individual portfolio run gets a generous budget (an obligation reaches it only when
			// the incremental batch could not decide it): a slow or loaded machine must not turn a
			// provable obligation into an alarm
			t := cfg.timeoutSec
			if t < 90 {
				t = 90
			}
			if v, err := strconv.Atoi(os.Getenv("VERIF_PORTFOLIO_SEC")); err == nil && v > 0 {
				t = v // development only (mutation campaign): never set by the registered commands
			}
			out, secs := runSolverCtx(race, s, file, t)
			as, _ := parseAnswers(out)
			a := "unknown"
			if len(as) > 0 {
				a = as[0]
			}
			ch <- ans{s.Name, a, out, secs}
		}(s)
	}
	best := ans{a: "unknown"}
	for range solvers {
		r := <-ch
		if r.a == "unsat" {
			best = r
			break
		}
		if r.a == "sat" {
			best = r
			break
		}
		if best.solver == "" {
			best = r
		}
	}
	o.Solver = best.solver
	o.Seconds = best.secs
	switch best.a {
	case "unsat":
		o.Status = "discharged"
	case "sat":
		o.Status = "refuted"
		o.Model = best.out
		os.WriteFile(file+".model", []byte(best.out), 0o644)
	default:
		o.Status = "undecided"
		o.Model = best.out
		// model search: same query over the model-search prelude (definitions instead of the
		// trigger axioms). "sat" there is a genuine counterexample (see Engine.preludeModel).
		if strings.HasPrefix(common, scriptHeader+e.prelude) {
			mfile := file + ".modelsearch.smt2"
			mq := scriptHeader + e.modelPreludeFor(common[len(scriptHeader+e.prelude):]+o.Guard+o.Goal) + common[len(scriptHeader+e.prelude):] + "; " + o.Name + "\n" +
				fmt.Sprintf("(assert %s)\n(assert (not %s))\n(check-sat)\n", o.Guard, o.Goal)
			os.WriteFile(mfile, []byte(mq), 0o644)
			out, secs := runSolver(solvers[0], mfile, cfg.timeoutSec)
			as, _ := parseAnswers(out)
			if len(as) > 0 && as[0] == "sat" {
				o.Status = "refuted"
				o.Solver = solvers[0].Name + " (model search)"
				o.Seconds += secs
				o.Model = "sat (model-search variant of the query: " + mfile + ")"
				o.ModelMode = true
			}
		}
	}
	o.File = file
}

func (e *Engine) confirm(common, base string, o *Oblig, cfg solveCfg) {
	file := base + "." + sanitize(o.Name[strings.Index(o.Name, "#")+1:]) + ".smt2"
	q := common + "; " + o.Name + "\n" + fmt.Sprintf("(assert %s)\n(assert (not %s))\n(check-sat)\n", o.Guard, o.Goal)
	os.WriteFile(file, []byte(q), 0o644)
	for _, s := range solvers[1:] {
		out, _ := runSolver(s, file, cfg.timeoutSec)
		as, _ := parseAnswers(out)
		if len(as) > 0 && as[0] == "unsat" {
			o.Confirmed = s.Name
			return
		}
		if len(as) > 0 && as[0] == "sat" {
			o.Confirmed = "DISAGREE:" + s.Name
			return
		}
	}
}
