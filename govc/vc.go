package main

import (
	"fmt"
	"go/token"
	"go/types"
	"sort"
	"strings"

	"golang.org/x/tools/go/ssa"
)

// ---------------------------------------------------------------- memory

// Mem maps a memory key to the SMT term (sort memSort(leaf)) holding it.
// A key that is absent denotes the function-entry memory $M0_<key>.
type Mem struct {
	m map[string]string
	// wild: key prefixes havocked by a `modifies prefix.*` clause. A key with such a prefix that
	// is not in m denotes the unknown memory $Mw<epoch>_<key>, not the entry memory.
	wild []wildHavoc
	// lazy join: a key that is neither in m nor covered by wild (all of which are younger than the
	// join) is the ite over the joined memories, built on first use
	lazyConds []string
	lazyMems  []*Mem
}

// memAlias: a `preserves cond: patterns` clause of a callee, applied to a wildcard havoc.
type memAlias struct {
	patterns []string
	cond     string
	guard    string
	pre      *Mem
}

func (a memAlias) matches(key string) bool { return keyMatches(a.patterns, key) }

func keyMatches(patterns []string, key string) bool {
	for _, p := range patterns {
		if pre, wild := isWildKey(p); wild {
			if strings.HasPrefix(key, pre) {
				return true
			}
		} else if p == key {
			return true
		}
	}
	return false
}

type wildHavoc struct {
	prefix string
	epoch  int
}

func (m *Mem) clone() *Mem {
	n := &Mem{m: make(map[string]string, len(m.m))}
	for k, v := range m.m {
		n.m[k] = v
	}
	n.wild = append([]wildHavoc(nil), m.wild...)
	n.lazyConds, n.lazyMems = m.lazyConds, m.lazyMems
	return n
}

// wildFor returns the latest wildcard havoc covering key, if any.
func (m *Mem) wildFor(key string) (wildHavoc, bool) {
	for i := len(m.wild) - 1; i >= 0; i-- {
		if strings.HasPrefix(key, m.wild[i].prefix) {
			return m.wild[i], true
		}
	}
	return wildHavoc{}, false
}

// havocPrefix forgets everything about the memories whose key starts with prefix.
func (vc *VC) havocPrefix(m *Mem, prefix string) {
	vc.epoch++
	for k := range m.m {
		if strings.HasPrefix(k, prefix) {
			delete(m.m, k)
		}
	}
	m.wild = append(m.wild, wildHavoc{prefix, vc.epoch})
}

func isWildKey(k string) (string, bool) {
	if strings.HasSuffix(k, "*") {
		return strings.TrimSuffix(k, "*"), true
	}
	return "", false
}

type Oblig struct {
	Name   string
	Kind   string // index slice nil unsafe-read div overflow panic requires ensures inv-entry inv-preserved canary cover type-assert
	Guard  string
	Goal   string
	Tags   []string
	Pos    token.Pos
	Desc   string
	Canary bool
	Cover  bool
	Safety bool
	// results
	Status  string // discharged refuted undecided
	Solver  string
	Seconds float64
	Model   string
	Func    string
	File    string
	Confirmed string
	GoalFree string // the clause over unconstrained result constants $free_res_i (see finish)
	ScriptPos int   // length of the function's script when the obligation was generated
	ModelMode bool  // refuted through the model-search prelude
}

type loopInfo struct {
	header  *ssa.BasicBlock
	ord     int
	body    map[*ssa.BasicBlock]bool
	allocs  map[string]bool // object ids allocated inside the loop body
	mods    []resolvedMod
	hasMods bool
}

type resolvedMod struct {
	key   string
	obj   string // "" = whole key
	fresh bool   // only objects allocated by this call (id >= $A0)
}

type VC struct {
	eng  *Engine
	fn   *ssa.Function
	con  *Contract
	prop string

	b        strings.Builder
	nsym     int
	vals     map[ssa.Value]SVal
	R        map[*ssa.BasicBlock]string
	memOut   map[*ssa.BasicBlock]*Mem
	keySort  map[string]Sort
	keyType  map[string]types.Type
	declared map[string]bool
	obligs   []*Oblig
	ord      map[string]int
	allocN   int
	params   map[string]SVal
	results  []string // names of results for env
	mem0     *Mem
	cur      *ssa.BasicBlock
	curMem   *Mem
	loops    map[*ssa.BasicBlock]*loopInfo
	loopList []*loopInfo
	debug    map[string][]debugBinding
	notes    []string
	lets     map[string]SVal
	defers   []*ssa.Defer
	retR     []string
	retVals  [][]SVal
	retMems  []*Mem
	retBlks  []*ssa.BasicBlock
	nCalls   int
	usedCon  map[string]bool
	uncontracted map[string]bool
	nalloc       string
	nallocOut    map[*ssa.BasicBlock]string
	allocSites   []string
	retNalloc    []string
	nfail        string
	nfailOut     map[*ssa.BasicBlock]string
	retNfail     []string
	nEmb         int
	havocked bool
	mergedResults []SVal
	assertDone    map[string]bool
	crossAssumed  map[string]bool
	epoch         int
	freeResults   []SVal
	selectOrd     map[*ssa.Select]int
	aliases       map[int][]memAlias // by wildcard epoch: memories equal to the pre-call ones when cond holds
	bound         string             // allocation bound at the current point (see newObj)
	boundOut      map[*ssa.BasicBlock]string
	epochBound    map[int]string // allocation bound right after the call that made a wildcard epoch
	pendingBound  string         // bound to state for object-component memories declared right now
	localAlloc    bool           // the allocation being executed is a non-escaping local
	inl           []*ssa.Function // helpers being executed in place (inline.go)
	inlR          string
	inlMem        *Mem
	inlSite       *ssa.BasicBlock // block of the outermost call being executed in place
	inlGuard      string          // extra path condition for the next in-place execution (sortSearch)
}

type debugBinding struct {
	blk *ssa.BasicBlock
	idx int
	val ssa.Value
}

func (vc *VC) sym(hint string) string {
	vc.nsym++
	return fmt.Sprintf("$%s%d", sanitize(hint), vc.nsym)
}

func (vc *VC) emit(s string) { vc.b.WriteString(s); vc.b.WriteByte('\n') }

func (vc *VC) declare(name string, sort Sort) string {
	if !vc.declared[name] {
		vc.declared[name] = true
		vc.emit(fmt.Sprintf("(declare-const %s %s)", name, sort))
	}
	return name
}

func (vc *VC) def(hint string, sort Sort, body string) string {
	if len(body) < 24 && !strings.Contains(body, " ") {
		return body
	}
	if isLit(body) {
		return body
	}
	n := vc.sym(hint)
	vc.emit(fmt.Sprintf("(define-fun %s () %s %s)", n, sort, body))
	return n
}

func (vc *VC) fact(guard, body string) {
	if body == "true" {
		return
	}
	vc.emit("(assert " + implies(guard, body) + ")")
}

func (vc *VC) note(f string, a ...any) {
	s := fmt.Sprintf(f, a...)
	for _, n := range vc.notes {
		if n == s {
			return
		}
	}
	vc.notes = append(vc.notes, s)
}

// mem access ------------------------------------------------------------

func (vc *VC) memGet(m *Mem, key string, leaf Sort) string {
	if prev, ok := vc.keySort[key]; ok && prev != leaf {
		unsup("memory key %s used with sorts %s and %s", key, prev, leaf)
	}
	vc.keySort[key] = leaf
	if t, ok := m.m[key]; ok {
		return t
	}
	if w, ok := m.wildFor(key); ok {
		// same (epoch, key) always names the same unknown memory, whichever clone asks first
		savedBound := vc.pendingBound
		vc.pendingBound = vc.epochBound[w.epoch]
		name := vc.declMem(fmt.Sprintf("$Mw%d_%s", w.epoch, sanitize(key)), key, leaf, true)
		vc.pendingBound = savedBound
		m.m[key] = name // materialise, so that joins merge it like any other memory
		// `preserves cond: patterns` clauses of the call that produced this epoch
		if !vc.declared["pres:"+name] {
			vc.declared["pres:"+name] = true
			for _, a := range vc.aliases[w.epoch] {
				if a.matches(key) {
					pre := vc.memGet(a.pre, key, leaf)
					vc.fact(a.guard, implies(a.cond, eq(name, pre)))
				}
			}
		}
		return name
	}
	if len(m.lazyMems) > 0 {
		var terms []string
		same := true
		for _, p := range m.lazyMems {
			t := vc.memGet(p, key, leaf)
			terms = append(terms, t)
			if t != terms[0] {
				same = false
			}
		}
		t := terms[len(terms)-1]
		if !same {
			t = vc.joinMem(key, leaf, m.lazyConds, terms)
		}
		m.m[key] = t
		return t
	}
	return vc.declMem("$M0_"+sanitize(key), key, leaf, true)
}

// declMem declares a memory (two-level) or an inner array (one-level) for key and states
// the range every cell of an integer-typed memory satisfies.
func (vc *VC) declMem(name, key string, leaf Sort, twoLevel bool) string {
	if vc.declared[name] {
		return name
	}
	if twoLevel {
		vc.declare(name, memSort(leaf))
	} else {
		vc.declare(name, arrSort(leaf))
	}
	if leaf != SInt {
		return name
	}
	if key == "buffer.obj" && twoLevel {
		// a buffer's backing object exists; at function entry it predates this function's allocations
		hi := ""
		if strings.HasPrefix(name, "$M0_") {
			hi = fmt.Sprintf(" (< (select (select %s o) i) $A0)", name)
		} else if vc.pendingBound != "" {
			hi = fmt.Sprintf(" (< (select (select %s o) i) %s)", name, vc.pendingBound)
		}
		vc.emit(fmt.Sprintf("(assert (forall ((o Int) (i Int)) (! (and (< 0 (select (select %s o) i))%s) :pattern ((select (select %s o) i)))))", name, hi, name))
		return name
	}
	if strings.HasSuffix(key, "#o") && !twoLevel {
		// the cells of ONE object (modifies key at obj): same facts, one level
		hi := ""
		if vc.pendingBound != "" {
			hi = fmt.Sprintf(" (< (select %s i) %s)", name, vc.pendingBound)
		}
		vc.emit(fmt.Sprintf("(assert (forall ((i Int)) (! (and (<= 0 (select %s i))%s) :pattern ((select %s i)))))", name, hi, name))
		return name
	}
	if strings.HasSuffix(key, "#o") && twoLevel {
		// object components of stored slices / strings / pointers: object ids are non-negative, and
		// every object reachable from the entry memory predates this function's allocations
		hi := ""
		if strings.HasPrefix(name, "$M0_") {
			hi = fmt.Sprintf(" (< (select (select %s o) i) $A0)", name)
		} else if vc.pendingBound != "" {
			// memory produced by a call: every object it mentions existed when the call returned
			hi = fmt.Sprintf(" (< (select (select %s o) i) %s)", name, vc.pendingBound)
		}
		vc.emit(fmt.Sprintf("(assert (forall ((o Int) (i Int)) (! (and (<= 0 (select (select %s o) i))%s) :pattern ((select (select %s o) i)))))", name, hi, name))
		return name
	}
	if (strings.HasSuffix(key, "#l") || strings.HasSuffix(key, "#f") || strings.HasSuffix(key, "#c")) && twoLevel {
		// offset / length / capacity components of stored slices and strings are non-negative
		vc.emit(fmt.Sprintf("(assert (forall ((o Int) (i Int)) (! (<= 0 (select (select %s o) i)) :pattern ((select (select %s o) i)))))", name, name))
		return name
	}
	if key == "buffer.len" {
		// a buffer never holds a negative number of bytes
		if twoLevel {
			vc.emit(fmt.Sprintf("(assert (forall ((o Int) (i Int)) (! (<= 0 (select (select %s o) i)) :pattern ((select (select %s o) i)))))", name, name))
		} else {
			vc.emit(fmt.Sprintf("(assert (forall ((i Int)) (! (<= 0 (select %s i)) :pattern ((select %s i)))))", name, name))
		}
		return name
	}
	T := vc.keyType[key]
	if key == "uint8" {
		T = types.Typ[types.Uint8]
	}
	if T == nil {
		return name
	}
	lo, hi, ok := intRange(T)
	if !ok {
		return name
	}
	if twoLevel {
		vc.emit(fmt.Sprintf("(assert (forall ((o Int) (i Int)) (! (and (<= %s (select (select %s o) i)) (<= (select (select %s o) i) %s)) :pattern ((select (select %s o) i)))))", lit(lo), name, name, lit(hi), name))
	} else {
		vc.emit(fmt.Sprintf("(assert (forall ((i Int)) (! (and (<= %s (select %s i)) (<= (select %s i) %s)) :pattern ((select %s i)))))", lit(lo), name, name, lit(hi), name))
	}
	return name
}

func (vc *VC) leafLoad(m *Mem, key string, leaf Sort, obj, off string) string {
	return sel2(vc.memGet(m, key, leaf), obj, off)
}

func (vc *VC) leafStore(m *Mem, key string, leaf Sort, obj, off, val string) {
	vc.checkLoopStore(key, obj)
	M := vc.memGet(m, key, leaf)
	m.m[key] = vc.def("M_"+key, memSort(leaf), sto(M, obj, sto(sel(M, obj), off, val)))
}

// build constructs a value of Go type T, obtaining each scalar leaf from leaf(path, sort, leafType).
func (vc *VC) build(T types.Type, path string, leaf func(path string, sort Sort, lt types.Type) string) SVal {
	I := types.Typ[types.Int]
	switch u := T.Underlying().(type) {
	case *types.Basic:
		switch {
		case u.Info()&types.IsInteger != 0:
			return SVal{K: KInt, T: T, S: leaf(path, SInt, T)}
		case u.Info()&types.IsBoolean != 0:
			return SVal{K: KBool, T: T, S: leaf(path, SBool, T)}
		case u.Info()&types.IsString != 0:
			return stringV(T, leaf(path+"#o", SInt, I), leaf(path+"#f", SInt, I), leaf(path+"#l", SInt, I))
		case u.Kind() == types.Float32:
			return SVal{K: KFloat, T: T, S: leaf(path, SF32, T)}
		case u.Kind() == types.Float64:
			return SVal{K: KFloat, T: T, S: leaf(path, SF64, T)}
		case u.Kind() == types.UnsafePointer:
			p := ptrV(T, leaf(path+"#o", SInt, I), leaf(path+"#f", SInt, I))
			p.Unsafe = true
			return p
		case u.Kind() == types.UntypedNil:
			return refV("0", T)
		}
	case *types.Slice:
		return sliceV(T, leaf(path+"#o", SInt, I), leaf(path+"#f", SInt, I), leaf(path+"#l", SInt, I), leaf(path+"#c", SInt, I))
	case *types.Pointer:
		p := ptrV(T, leaf(path+"#o", SInt, I), leaf(path+"#f", SInt, I))
		p.Key = ptrKeyFor(u.Elem())
		return p
	case *types.Interface, *types.Map, *types.Chan, *types.Signature:
		return refV(leaf(path, SInt, I), T)
	case *types.Struct:
		v := SVal{K: KStruct, T: T}
		for i := 0; i < u.NumFields(); i++ {
			f := u.Field(i)
			v.F = append(v.F, vc.build(f.Type(), path+"."+f.Name(), leaf))
		}
		return v
	case *types.Array:
		if _, ok := scalarSort(flatElem(T)); !ok {
			unsup("array of non-scalar element type %v", T)
		}
		return SVal{K: KArr, T: T, S: leaf(path+"#a", SA1, T)}
	case *types.Tuple:
		v := SVal{K: KTuple, T: T}
		for i := 0; i < u.Len(); i++ {
			v.F = append(v.F, vc.build(u.At(i).Type(), fmt.Sprintf("%s$%d", path, i), leaf))
		}
		return v
	case *types.TypeParam:
		return refV(leaf(path, SInt, I), T)
	}
	unsup("type %v", T)
	return SVal{}
}

func ptrKeyFor(elem types.Type) string {
	switch elem.Underlying().(type) {
	case *types.Struct:
		return ""
	}
	return typeKey(elem)
}

// maxCells: no object holds more than 2^48 cells (amd64 user address space is 2^47 bytes).
const maxCells = "281474976710656"

// typeFacts returns the facts every value of the type satisfies.
func (vc *VC) typeFacts(v SVal) string {
	var fs []string
	var walk func(v SVal)
	walk = func(v SVal) {
		switch v.K {
		case KInt:
			fs = append(fs, rangeFact(v.S, v.T))
		case KSlice:
			fs = append(fs, le("0", v.obj()), le("0", v.off()), le("0", v.ln()), le(v.ln(), v.cp()),
				implies(eq(v.obj(), "0"), and(eq(v.ln(), "0"), eq(v.cp(), "0"), eq(v.off(), "0"))),
				le(add(v.off(), v.cp()), maxCells))
		case KString:
			fs = append(fs, le("0", v.obj()), le("0", v.off()), le("0", v.ln()), le(add(v.off(), v.ln()), maxCells))
		case KPtr:
			fs = append(fs, le("0", v.obj()), le("0", v.off()))
		case KRef:
			fs = append(fs, le("0", v.S))
		case KStruct, KTuple:
			for _, f := range v.F {
				walk(f)
			}
		}
	}
	walk(v)
	return and(fs...)
}

func (vc *VC) fresh(T types.Type, hint string) SVal {
	base := vc.sym(hint)
	v := vc.build(T, "", func(path string, sort Sort, lt types.Type) string {
		return vc.declare(base+sanitize(path), sort)
	})
	vc.fact("true", vc.typeFacts(v))
	return v
}

func (vc *VC) zero(T types.Type) SVal {
	return vc.build(T, "", func(path string, sort Sort, lt types.Type) string {
		switch sort {
		case SInt:
			return "0"
		case SBool:
			return "false"
		case SA1:
			return "((as const (Array Int Int)) 0)"
		case SF32:
			return "(_ +zero 8 24)"
		case SF64:
			return "(_ +zero 11 53)"
		}
		unsup("zero of sort %s", sort)
		return ""
	})
}

func (vc *VC) iteVal(c string, a, b SVal) SVal {
	return zipLeaves(a, b, func(x, y string, s Sort) string { return ite(c, x, y) })
}

// nameVal binds every non-trivial leaf of v to a define-fun so terms stay small.
func (vc *VC) nameVal(v SVal, hint string) SVal {
	return mapLeaves(v, func(s string, sort Sort) string { return vc.def(hint, sort, s) })
}

// field pointers --------------------------------------------------------

func (vc *VC) embFn(T types.Type, field string) string {
	n := "emb_" + sanitize(typeKey(T)) + "_" + field
	if !vc.declared[n] {
		vc.declared[n] = true
		vc.emit(fmt.Sprintf("(declare-fun %s (Int Int) Int)", n))
		// embedded objects are non-nil
		// and are exactly as old as the object they are embedded in
		// (embedded parts of non-escaping locals, which have negative ids, are far below zero)
		vc.emit(fmt.Sprintf("(assert (forall ((o Int) (f Int)) (! (and (=> (< o 0) (< (%s o f) (- 1000000))) (=> (>= o 0) (and (< 0 (%s o f)) (= (>= (%s o f) $A0) (>= o $A0))))) :pattern ((%s o f)))))", n, n, n, n))
		// each embedded part is an object of its own: the embedding is injective and the parts of
		// different (type, field) pairs are distinct objects
		if !vc.declared["embtag"] {
			vc.declared["embtag"] = true
			vc.emit("(declare-fun embtag (Int) Int)\n(declare-fun embpo (Int) Int)\n(declare-fun embpf (Int) Int)")
		}
		vc.nEmb++
		vc.emit(fmt.Sprintf("(assert (forall ((o Int) (f Int)) (! (and (= (embtag (%s o f)) %d) (= (embpo (%s o f)) o) (= (embpf (%s o f)) f)) :pattern ((%s o f)))))", n, vc.nEmb, n, n, n))
	}
	return n
}

func (vc *VC) fieldPtr(p SVal, ST types.Type, i int) SVal {
	st := ST.Underlying().(*types.Struct)
	f := st.Field(i)
	PT := types.NewPointer(f.Type())
	switch f.Type().Underlying().(type) {
	case *types.Struct:
		q := ptrV(PT, sx(vc.embFn(ST, f.Name()), p.obj(), p.off()), "0")
		return q
	case *types.Array:
		q := ptrV(PT, sx(vc.embFn(ST, f.Name()), p.obj(), p.off()), "0")
		q.Key = typeKey(flatElem(f.Type()))
		q.Lo, q.Hi = "0", litI(flatLen(f.Type()))
		return q
	}
	q := ptrV(PT, p.obj(), p.off())
	q.Key = typeKey(ST) + "." + f.Name()
	return q
}

func (vc *VC) load(p SVal, T types.Type, m *Mem) SVal {
	if p.K != KPtr {
		unsup("load through non-pointer value")
	}
	// idiom: *(*string)(unsafe.Pointer(&p)) where p is a []byte variable
	if p.Orig != nil {
		if _, isSlice := p.Orig.Underlying().(*types.Slice); isSlice {
			if b, ok := T.Underlying().(*types.Basic); ok && b.Info()&types.IsString != 0 {
				sl := vc.load(SVal{K: KPtr, T: types.NewPointer(p.Orig), F: p.F, Key: typeKey(p.Orig)}, p.Orig, m)
				vc.note("idiom: *(*string)(unsafe.Pointer(&p)) read as the string over p's bytes")
				return stringV(T, sl.obj(), sl.off(), sl.ln())
			}
		}
		if !types.Identical(p.Orig, T) {
			unsup("load of %v through unsafe pointer to %v", T, p.Orig)
		}
	}
	switch u := T.Underlying().(type) {
	case *types.Struct:
		v := SVal{K: KStruct, T: T}
		for i := 0; i < u.NumFields(); i++ {
			v.F = append(v.F, vc.load(vc.fieldPtr(p, T, i), u.Field(i).Type(), m))
		}
		return v
	case *types.Array:
		n := flatLen(T)
		el := flatElem(T)
		so, ok := scalarSort(el)
		if !ok || so != SInt {
			unsup("array load of element type %v", el)
		}
		key := typeKey(el)
		inner := vc.def("A", SA1, sel(vc.memGet(m, key, SInt), p.obj()))
		if p.off() == "0" {
			return SVal{K: KArr, T: T, S: inner}
		}
		a := vc.declare(vc.sym("arr"), SA1)
		if n <= 64 {
			for i := int64(0); i < n; i++ {
				vc.fact("true", eq(sel(a, litI(i)), sel(inner, add(p.off(), litI(i)))))
			}
		} else {
			vc.emit(fmt.Sprintf("(assert (forall ((i Int)) (! (=> (and (<= 0 i) (< i %d)) (= (select %s i) (select %s (+ %s i)))) :pattern ((select %s i)))))", n, a, inner, p.off(), a))
		}
		return SVal{K: KArr, T: T, S: a}
	}
	key := p.Key
	if key == "" {
		key = typeKey(T)
	}
	v := vc.build(T, "", func(path string, sort Sort, lt types.Type) string {
		vc.keyType[key+path] = lt
		return vc.leafLoad(m, key+path, sort, p.obj(), p.off())
	})
	v = vc.nameVal(v, "ld")
	vc.fact("true", vc.typeFacts(v))
	return v
}

func (vc *VC) store(p SVal, T types.Type, val SVal, m *Mem) {
	if p.K != KPtr {
		unsup("store through non-pointer value")
	}
	switch u := T.Underlying().(type) {
	case *types.Struct:
		for i := 0; i < u.NumFields(); i++ {
			vc.store(vc.fieldPtr(p, T, i), u.Field(i).Type(), val.F[i], m)
		}
		return
	case *types.Array:
		n := flatLen(T)
		el := flatElem(T)
		key := typeKey(el)
		vc.checkLoopStore(key, p.obj())
		M := vc.memGet(m, key, SInt)
		if n > 64 {
			// a whole embedded array (its own object, offset 0) set to the zero value
			if val.S == "((as const (Array Int Int)) 0)" && p.off() == "0" {
				m.m[key] = vc.def("M_"+key, memSort(SInt), sto(M, p.obj(), val.S))
				return
			}
			unsup("store of large array value")
		}
		inner := sel(M, p.obj())
		for i := int64(0); i < n; i++ {
			inner = sto(inner, add(p.off(), litI(i)), sel(val.S, litI(i)))
		}
		m.m[key] = vc.def("M_"+key, memSort(SInt), sto(M, p.obj(), inner))
		return
	}
	key := p.Key
	if key == "" {
		key = typeKey(T)
	}
	// walk the leaves of val in build order
	var leaves []string
	mapLeaves(val, func(s string, sort Sort) string { leaves = append(leaves, s); return s })
	i := 0
	vc.build(T, "", func(path string, sort Sort, lt types.Type) string {
		if i >= len(leaves) {
			unsup("store shape mismatch for %v", T)
		}
		vc.keyType[key+path] = lt
		vc.leafStore(m, key+path, sort, p.obj(), p.off(), leaves[i])
		i++
		return ""
	})
}

// obligations -------------------------------------------------------------

func (vc *VC) fname() string {
	s := vc.fn.String()
	// shorten package path to its last element
	return shortFuncName(s)
}

func shortFuncName(s string) string {
	// "(*a/b/c.T).M" -> "c.(*T).M" ; "a/b/c.F" -> "c.F" ; "(a/b/c.T).M" -> "c.(T).M"
	star := ""
	recv := false
	rest := s
	if strings.HasPrefix(rest, "(*") {
		star = "*"
		recv = true
		rest = rest[2:]
	} else if strings.HasPrefix(rest, "(") {
		recv = true
		rest = rest[1:]
	}
	// cut package path: everything up to last '/' before first '.' after it
	cut := func(q string) string {
		// q = a/b/c.T  or a/b/c.F
		br := strings.Index(q, "[")
		head := q
		if br >= 0 {
			head = q[:br]
		}
		if i := strings.LastIndex(head, "/"); i >= 0 {
			return q[i+1:]
		}
		return q
	}
	if recv {
		i := strings.Index(rest, ").")
		if i < 0 {
			return s
		}
		tn := cut(rest[:i])
		j := strings.Index(tn, ".")
		if j < 0 {
			return s
		}
		return tn[:j] + ".(" + star + tn[j+1:] + ")" + rest[i+1:]
	}
	return cut(rest)
}

func (vc *VC) oblige(kind, guard, goal string, pos token.Pos, desc string) *Oblig {
	vc.ord[kind]++
	o := &Oblig{
		Name:  fmt.Sprintf("%s#%s.%d", vc.fname(), kind, vc.ord[kind]),
		Kind:  kind,
		Guard: guard,
		Goal:  goal,
		Pos:   pos,
		Desc:  desc,
		Func:  vc.fn.String(),
		// an obligation may use only what was known when it arose: the script up to this point
		ScriptPos: vc.b.Len(),
	}
	switch kind {
	case "index", "slice", "nil", "unsafe-read", "div", "panic", "type-assert", "overflow", "conv":
		o.Safety = true
	}
	vc.obligs = append(vc.obligs, o)
	return o
}

// loop store discipline -------------------------------------------------

func (vc *VC) enclosingLoops(b *ssa.BasicBlock) []*loopInfo {
	var out []*loopInfo
	if b != nil && b.Parent() != vc.fn && vc.inlSite != nil {
		b = vc.inlSite // a block of a helper executed in place counts as its call site's block
	}
	for _, l := range vc.loopList {
		if l.body[b] {
			out = append(out, l)
		}
	}
	return out
}

func (vc *VC) checkLoopStore(key, obj string) {
	if vc.cur == nil {
		return
	}
	for _, l := range vc.enclosingLoops(vc.cur) {
		if l.allocs[obj] {
			continue
		}
		ok := false
		for _, m := range l.mods {
			hit := m.key == key && (m.obj == "" || m.obj == obj)
			if !hit && m.key == key && m.obj != "" && obj != "*" && !ok {
				// the clause names an object by an expression evaluated before the loop; the store
				// reaches its object through a different term: they must denote the same object
				only := true
				for _, m2 := range l.mods {
					if m2.key == key && m2 != m {
						only = false
					}
				}
				if only {
					vc.oblige("loop-at", vc.R[vc.cur], eq(obj, m.obj), token.NoPos, fmt.Sprintf("loop %d modifies %s at ...: the written object is the one named by the clause", l.ord, m.key))
					hit = true
				}
			}
			if p, wild := isWildKey(m.key); wild && strings.HasPrefix(key, p) {
				hit = true
			}
			if !hit {
				continue
			}
			ok = true
			if m.fresh {
				// the clause covers only objects allocated by this call: this store must hit one
				if obj == "*" {
					unsup("a call inside loop %d may modify memory %q of any object, but the loop clause is 'modifies-fresh'", l.ord, key)
				}
				o := vc.oblige("loop-fresh", vc.R[vc.cur], le("$A0", obj), token.NoPos, fmt.Sprintf("loop %d modifies-fresh %s: the written object was allocated by this call", l.ord, m.key))
				_ = o
			}
		}
		if !ok {
			unsup("store to memory %q (object %s) inside loop %d is not covered by a 'loop %d modifies' clause", key, obj, l.ord, l.ord)
		}
	}
}

// ---------------------------------------------------------------- CFG helpers

func rpo(fn *ssa.Function, isBack func(from, to *ssa.BasicBlock) bool) []*ssa.BasicBlock {
	seen := map[*ssa.BasicBlock]bool{}
	var post []*ssa.BasicBlock
	var dfs func(b *ssa.BasicBlock)
	dfs = func(b *ssa.BasicBlock) {
		seen[b] = true
		for _, s := range b.Succs {
			if isBack(b, s) || seen[s] {
				continue
			}
			dfs(s)
		}
		post = append(post, b)
	}
	dfs(fn.Blocks[0])
	for i, j := 0, len(post)-1; i < j; i, j = i+1, j-1 {
		post[i], post[j] = post[j], post[i]
	}
	return post
}

func (vc *VC) findLoops() {
	vc.loops = map[*ssa.BasicBlock]*loopInfo{}
	for _, b := range vc.fn.Blocks {
		for _, s := range b.Succs {
			if s.Dominates(b) {
				l := vc.loops[s]
				if l == nil {
					l = &loopInfo{header: s, body: map[*ssa.BasicBlock]bool{s: true}, allocs: map[string]bool{}}
					vc.loops[s] = l
				}
				// natural loop: nodes reaching b without passing through s
				var stack []*ssa.BasicBlock
				if !l.body[b] {
					l.body[b] = true
					stack = append(stack, b)
				}
				for len(stack) > 0 {
					x := stack[len(stack)-1]
					stack = stack[:len(stack)-1]
					for _, p := range x.Preds {
						if !l.body[p] {
							l.body[p] = true
							stack = append(stack, p)
						}
					}
				}
			}
		}
	}
	var hs []*ssa.BasicBlock
	for h := range vc.loops {
		hs = append(hs, h)
	}
	// order loops by source position of header's first positioned instruction, falling back to block index
	sort.Slice(hs, func(i, j int) bool { return hs[i].Index < hs[j].Index })
	for i, h := range hs {
		vc.loops[h].ord = i + 1
		vc.loopList = append(vc.loopList, vc.loops[h])
	}
}

func (vc *VC) isBack(from, to *ssa.BasicBlock) bool { return to.Dominates(from) }
