#!/usr/bin/env python3
"""Mutation campaign: how many single-token changes of the wire-format packages do the checks
notice? Every mutant is applied in a scratch git worktree of /repo under /tmp (8 workers, removed at
the end); a mutant must build; the package's own tests are run (to know whether the suite already
kills it); then the checks of the properties that package carries run until one reports a
violation. Output: one line per mutant and a summary; survivors that also pass the tests are the
interesting ones (equivalent mutants or holes in the contracts).
usage: mutation_campaign.py [step] [offset]    (every step-th candidate, default 6)"""
import subprocess,sys,os,threading,queue,re
step=int(sys.argv[1]) if len(sys.argv)>1 else 6
off=int(sys.argv[2]) if len(sys.argv)>2 else 0
N=8
ENV=dict(os.environ,PATH='/opt/veriftools/go1.26.8/bin:'+os.environ['PATH'],GOTOOLCHAIN='local',GOFLAGS='-mod=mod',GOPROXY='off')
PROPS={'decode':['C02','C13','C10','C16'],'encode':['C08','C10'],'format':['C02','C16','C01','C08'],'types':['C02','C13','C16','C17'],'writer':['C12','C01','C18','C17']}
files=[]
for d in PROPS:
    for f in sorted(os.listdir('/repo/internal/'+d)):
        if f.endswith('.go') and not f.endswith('_test.go') and not f.startswith('test_') and 'contracts_verif' not in f:
            files.append('internal/%s/%s'%(d,f))
out=subprocess.run(['/verif/bin/mutgen']+files,cwd='/repo',capture_output=True,text=True).stdout.strip().split('\n')
cands=[l.split('\t') for l in out][off::step]
if len(sys.argv)>3:
    # retest mode: only the mutants listed as survivors in an earlier campaign output
    want=set()
    for l in open(sys.argv[3]):
        m=re.match(r'(\S+):(\d+)\s+(\S+) -> (\S+)\s+survived',l)
        if m: want.add((m.group(1),m.group(2),m.group(3),m.group(4)))
    cands=[c for c in [l.split('\t') for l in out] if (c[0],c[4],c[2],c[3]) in want]
q=queue.Queue()
for c in cands: q.put(c)
results=[]; lock=threading.Lock()
def worker(i):
    wt='/tmp/vw_mut_%d'%i
    subprocess.run(['git','-C','/repo','worktree','remove','--force',wt],capture_output=True)
    subprocess.run(['rm','-rf',wt])
    subprocess.run(['git','-C','/repo','worktree','add','-q','--detach',wt,'HEAD'],check=True)
    while True:
        try: f,o,old,new,line=q.get_nowait()
        except queue.Empty: break
        o=int(o); p=os.path.join(wt,f); src=open(p,'rb').read()
        assert src[o:o+len(old)].decode()==old,(f,o,old)
        open(p,'wb').write(src[:o]+new.encode()+src[o+len(old):])
        pkg=f.split('/')[1]; res='survived'; by=''
        b=subprocess.run(['go','build','./internal/decode','./internal/encode','./internal/format','./internal/types','./internal/writer','.'],cwd=wt,env=ENV,capture_output=True,text=True)
        if b.returncode!=0: res='nobuild'
        else:
            t=subprocess.run(['go','test','-count=1','-vet=off','./internal/'+pkg+'/','./'],cwd=wt,env=ENV,capture_output=True,text=True)
            tests='tests-pass' if t.returncode==0 else 'tests-FAIL'
            # all obligations (every property tag) of the functions of the mutated package
            r=subprocess.run(['/verif/bin/govc','verify','--repo',wt,'--func',r'/internal/%s\.|/internal/%s\)'%(pkg,pkg)],cwd='/verif',env=dict(ENV,VERIF_OUT_SUFFIX='-m%d'%i,VERIF_PORTFOLIO_SEC='12'),capture_output=True,text=True)
            m=re.search(r'problems (\d+)',r.stdout)
            if not m: res='error'; by=r.stdout[-200:].replace('\n',' ')+r.stderr[-200:].replace('\n',' ')
            elif int(m.group(1))>0:
                res='killed'; f1=re.search(r'^\s+(refuted|undecided)\s+(\S+)',r.stdout,re.M); by=f1.group(2) if f1 else ''
                if re.search(r'^OUT-OF-SUBSET|^ERROR',r.stdout,re.M) and not f1: by=re.search(r'^(OUT-OF-SUBSET|ERROR)\s+\S+',r.stdout,re.M).group(0)
            res=res+' '+tests
        open(p,'wb').write(src)
        with lock:
            results.append((f,line,old,new,res,by)); print('%s:%s  %s -> %s   %s   %s'%(f,line,old,new,res,by),flush=True)
    subprocess.run(['git','-C','/repo','worktree','remove','--force',wt],capture_output=True)
    subprocess.run('rm -rf /verif/out/*-m%d'%i,shell=True)
ts=[threading.Thread(target=worker,args=(i,)) for i in range(N)]
[t.start() for t in ts]; [t.join() for t in ts]
subprocess.run(['git','-C','/repo','worktree','prune'])
from collections import Counter
c=Counter(r[4] for r in results)
print('SUMMARY',dict(c))
