package main

import (
	"bytes"
	"fmt"
	"go/ast"
	"go/parser"
	"go/printer"
	"go/token"
	"os"
	"path/filepath"
	"strconv"
	"strings"
)

// Mechanical extraction of the grammar actions (C15).
//
// goyacc puts every grammar action into one arm of `switch yynt` inside the table-driven function
// yyParserImpl.Parse (grammar.go). That function is outside the engine's reach (goto-driven LALR
// automaton over constant tables), but each arm is straight-line Go over yyDollar / yyVAL / yylex.
// On every run the arms are copied - statement for statement, from the CURRENT grammar.go - into
// functions of their own
//
//	func yyAct_<lhs>_<k>(yyDollar []yySymType, yyVAL yySymType, yylex yyLexer) (yySymType, int, bool)
//
// (<lhs>, k = the k-th alternative of nonterminal <lhs>, taken from the rule order of grammar.y),
// and handed to the loader as an in-memory overlay file of package parser. The only rewrites are:
// the first statement `yyDollar = yyS[yypt-K : yypt+1]` is dropped (yyDollar is a parameter; the
// contract requires len(yyDollar) == K+1), `return X` becomes `return yyVAL, X, true`, and
// `return yyVAL, 0, false` is appended. What the extraction DROPS, and the contracts therefore do
// not cover: the LALR driver - which production is reduced when, the value stack, error recovery.

type yyProd struct {
	lhs string
	alt int
}

// yaccProductions lists the productions of grammar.y in order (production 1 first).
func yaccProductions(src string) ([]yyProd, error) {
	i := strings.Index(src, "\n%%")
	if i < 0 {
		return nil, fmt.Errorf("no rules section")
	}
	s := src[i+3:]
	if j := strings.Index(s, "\n%%"); j >= 0 {
		s = s[:j]
	}
	var prods []yyProd
	pos := 0
	n := len(s)
	skipSpace := func() {
		for pos < n {
			switch {
			case s[pos] == ' ' || s[pos] == '\t' || s[pos] == '\n' || s[pos] == '\r':
				pos++
			case strings.HasPrefix(s[pos:], "//"):
				for pos < n && s[pos] != '\n' {
					pos++
				}
			case strings.HasPrefix(s[pos:], "/*"):
				k := strings.Index(s[pos+2:], "*/")
				if k < 0 {
					pos = n
				} else {
					pos += k + 4
				}
			default:
				return
			}
		}
	}
	skipAction := func() error {
		depth := 0
		for pos < n {
			c := s[pos]
			switch {
			case c == '{':
				depth++
				pos++
			case c == '}':
				depth--
				pos++
				if depth == 0 {
					return nil
				}
			case c == '"' || c == '`':
				q := c
				pos++
				for pos < n && s[pos] != q {
					if s[pos] == '\\' && q == '"' {
						pos++
					}
					pos++
				}
				pos++
			case c == '\'':
				pos++
				for pos < n && s[pos] != '\'' {
					if s[pos] == '\\' {
						pos++
					}
					pos++
				}
				pos++
			case strings.HasPrefix(s[pos:], "//"):
				for pos < n && s[pos] != '\n' {
					pos++
				}
			case strings.HasPrefix(s[pos:], "/*"):
				k := strings.Index(s[pos+2:], "*/")
				if k < 0 {
					return fmt.Errorf("unterminated comment in action")
				}
				pos += k + 4
			default:
				pos++
			}
		}
		return fmt.Errorf("unterminated action")
	}
	isIdent := func(c byte) bool {
		return c == '_' || c == '.' || (c >= 'a' && c <= 'z') || (c >= 'A' && c <= 'Z') || (c >= '0' && c <= '9')
	}
	for {
		skipSpace()
		if pos >= n {
			break
		}
		st := pos
		for pos < n && isIdent(s[pos]) {
			pos++
		}
		if st == pos {
			return nil, fmt.Errorf("rule name expected at %q", s[pos:min(pos+20, n)])
		}
		lhs := s[st:pos]
		skipSpace()
		if pos >= n || s[pos] != ':' {
			return nil, fmt.Errorf("':' expected after %s", lhs)
		}
		pos++
		alt := 1
		prods = append(prods, yyProd{lhs, alt})
		for {
			skipSpace()
			if pos >= n {
				return nil, fmt.Errorf("rule %s not terminated", lhs)
			}
			c := s[pos]
			switch {
			case c == ';':
				// goyacc ignores ';': the rule ends only if no '|' follows
				pos++
				skipSpace()
				if pos < n && s[pos] == '|' {
					continue
				}
				goto nextRule
			case c == '|':
				pos++
				alt++
				prods = append(prods, yyProd{lhs, alt})
			case c == '{':
				if err := skipAction(); err != nil {
					return nil, err
				}
			case c == '\'':
				pos++
				for pos < n && s[pos] != '\'' {
					if s[pos] == '\\' {
						pos++
					}
					pos++
				}
				pos++
			case c == '%':
				// %prec TOKEN
				for pos < n && s[pos] != ' ' && s[pos] != '\n' {
					pos++
				}
			case isIdent(c):
				st := pos
				for pos < n && isIdent(s[pos]) {
					pos++
				}
				// an identifier followed by ':' starts the next rule (rules need no ';')
				save := pos
				skipSpace()
				if pos < n && s[pos] == ':' {
					pos = st
					goto nextRule
				}
				pos = save
			default:
				return nil, fmt.Errorf("unexpected %q in rule %s", string(c), lhs)
			}
		}
	nextRule:
	}
	return prods, nil
}

// extractYaccActions returns the overlay file (path, content) for package dir, or an error.
func extractYaccActions(dir string) (string, []byte, error) {
	goSrc, err := os.ReadFile(filepath.Join(dir, "grammar.go"))
	if err != nil {
		return "", nil, err
	}
	ySrc, err := os.ReadFile(filepath.Join(dir, "grammar.y"))
	if err != nil {
		return "", nil, err
	}
	prods, err := yaccProductions(string(ySrc))
	if err != nil {
		return "", nil, fmt.Errorf("grammar.y: %v", err)
	}
	fset := token.NewFileSet()
	f, err := parser.ParseFile(fset, filepath.Join(dir, "grammar.go"), goSrc, parser.ParseComments)
	if err != nil {
		return "", nil, err
	}
	// production -> lhs number (yyR1) and rhs length (yyR2): consistency check of the rule parse
	table := func(name string) []int {
		var out []int
		ast.Inspect(f, func(n ast.Node) bool {
			vs, ok := n.(*ast.ValueSpec)
			if !ok || len(vs.Names) != 1 || vs.Names[0].Name != name || len(vs.Values) != 1 {
				return true
			}
			if cl, ok := vs.Values[0].(*ast.CompositeLit); ok {
				for _, e := range cl.Elts {
					if bl, ok := e.(*ast.BasicLit); ok {
						v, _ := strconv.Atoi(bl.Value)
						out = append(out, v)
					} else if u, ok := e.(*ast.UnaryExpr); ok {
						if bl, ok := u.X.(*ast.BasicLit); ok {
							v, _ := strconv.Atoi(bl.Value)
							out = append(out, -v)
						}
					}
				}
			}
			return false
		})
		return out
	}
	r1 := table("yyR1")
	if len(r1) != len(prods)+1 {
		return "", nil, fmt.Errorf("grammar.y has %d productions but yyR1 has %d entries: grammar.go is not generated from this grammar.y", len(prods), len(r1)-1)
	}
	lhsNum := map[string]int{}
	for i, p := range prods {
		if v, ok := lhsNum[p.lhs]; ok && v != r1[i+1] {
			return "", nil, fmt.Errorf("production %d: nonterminal %s has number %d and %d in yyR1", i+1, p.lhs, v, r1[i+1])
		}
		lhsNum[p.lhs] = r1[i+1]
	}
	// the action switch
	var sw *ast.SwitchStmt
	ast.Inspect(f, func(n ast.Node) bool {
		if s, ok := n.(*ast.SwitchStmt); ok {
			if id, ok := s.Tag.(*ast.Ident); ok && id.Name == "yynt" {
				sw = s
			}
		}
		return true
	})
	if sw == nil {
		return "", nil, fmt.Errorf("no 'switch yynt' in grammar.go")
	}
	var out bytes.Buffer
	out.WriteString("//go:build verif\n\n// Extracted mechanically by govc from the action switch of yyParserImpl.Parse (grammar.go). Never written to disk.\npackage parser\n\nimport (\n\t\"fmt\"\n\n\t\"github.com/basecomplextech/spec/internal/lang/syntax\"\n)\n\nvar _ = fmt.Sprint\nvar _ syntax.File\n\n")
	for _, st := range sw.Body.List {
		cc := st.(*ast.CaseClause)
		if len(cc.List) != 1 {
			continue
		}
		bl, ok := cc.List[0].(*ast.BasicLit)
		if !ok {
			continue
		}
		n, _ := strconv.Atoi(bl.Value)
		if n < 1 || n > len(prods) {
			return "", nil, fmt.Errorf("case %d outside the production list", n)
		}
		p := prods[n-1]
		k := -1
		var body []ast.Stmt
		for i, s := range cc.Body {
			if i == 0 {
				// yyDollar = yyS[yypt-K : yypt+1]
				if as, ok := s.(*ast.AssignStmt); ok && len(as.Lhs) == 1 {
					if id, ok := as.Lhs[0].(*ast.Ident); ok && id.Name == "yyDollar" {
						if se, ok := as.Rhs[0].(*ast.SliceExpr); ok {
							if be, ok := se.Low.(*ast.BinaryExpr); ok {
								if lit, ok := be.Y.(*ast.BasicLit); ok {
									k, _ = strconv.Atoi(lit.Value)
								}
							}
						}
						continue
					}
				}
			}
			body = append(body, s)
		}
		if k < 0 {
			return "", nil, fmt.Errorf("case %d: no yyDollar slice statement", n)
		}
		// return X  ->  return yyVAL, X, true
		for _, s := range body {
			ast.Inspect(s, func(nd ast.Node) bool {
				if _, isLit := nd.(*ast.FuncLit); isLit {
					return false
				}
				if r, ok := nd.(*ast.ReturnStmt); ok && len(r.Results) == 1 {
					r.Results = []ast.Expr{ast.NewIdent("yyVAL"), r.Results[0], ast.NewIdent("true")}
				}
				return true
			})
		}
		fmt.Fprintf(&out, "// production %d: %s, alternative %d; yyDollar = yyS[yypt-%d : yypt+1]\nfunc yyAct_%s_%d(yyDollar []yySymType, yyVAL yySymType, yylex yyLexer) (yySymType, int, bool) {\n", n, p.lhs, p.alt, k, p.lhs, p.alt)
		for _, s := range body {
			var sb bytes.Buffer
			if err := printer.Fprint(&sb, fset, s); err != nil {
				return "", nil, err
			}
			out.WriteString("\t" + strings.ReplaceAll(sb.String(), "\n", "\n\t") + "\n")
		}
		out.WriteString("\treturn yyVAL, 0, false\n}\n\n")
	}
	return filepath.Join(dir, "zz_yyactions_verif.go"), out.Bytes(), nil
}
