//go:build verif

// ASSUMED contracts of baselibrary/logging (interface; no bodies are verified): logging has no
// effect on memory visible to the repository.
package ext

//@ package github.com/basecomplextech/baselibrary/logging

//@ iface Logger.TraceOn
//@ iface Logger.DebugOn
//@ iface Logger.ErrorOn
//@ iface Logger.Trace
//@ iface Logger.Debug
//@ iface Logger.Error
//@ iface Logger.ErrorStatus
