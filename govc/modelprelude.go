package main

import (
	"regexp"
	"strings"
)

var reDeclName = regexp.MustCompile(`^\(declare-fun\s+([A-Za-z_][A-Za-z0-9_]*)\s`)

// modelPreludeFor returns the model-search prelude without the axioms of uninterpreted prelude
// functions that the script does not mention (an axiom about an unused function constrains
// nothing the query talks about, but its quantifier keeps the solver from answering "sat").
func (e *Engine) modelPreludeFor(script string) string {
	declared := map[string]bool{}
	for _, l := range strings.Split(e.preludeModel, "\n") {
		if m := reDeclName.FindStringSubmatch(l); m != nil {
			declared[m[1]] = true
		}
	}
	used := func(name string) bool {
		return strings.Contains(script, "("+name+" ")
	}
	var out []string
	for _, l := range strings.Split(e.preludeModel, "\n") {
		if strings.HasPrefix(l, "(assert (forall") {
			drop := false
			for name := range declared {
				if strings.Contains(l, "("+name+" ") && !used(name) {
					drop = true
				}
			}
			if drop {
				continue
			}
		}
		out = append(out, l)
	}
	return strings.Join(out, "\n") + "\n"
}
