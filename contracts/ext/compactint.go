//go:build verif

// Contracts for github.com/basecomplextech/baselibrary/encoding/compactint (dependency;
// the source is loaded from the module cache and VERIFIED against these contracts).
// Clauses tagged [C02] are the weak bounds the panic-freedom proofs need; clauses tagged
// [!C02] are the exact functional results used by every other property.
package ext

//@ package github.com/basecomplextech/baselibrary/encoding/compactint

//@ func ReverseSize
//@   safety[C02]
//@   ensures[C02] 0 <= result && result <= len(b) && result <= 9
//@   ensures[!C02] result == ite(varintSize(mem(b), lo(b), hi(b)) < 0, 0, varintSize(mem(b), lo(b), hi(b)))
//@   noalloc[C17]

//@ func ReverseUint32
//@   safety[C02]
//@   let n = varintSize(mem(b), lo(b), hi(b))
//@   ensures[C02] 0 - 1 <= result1 && result1 <= len(b) && result1 <= 5
//@   ensures[!C02] len(b) > 0 && b[len(b)-1] == 255 ==> result1 == 0 - 1 && result0 == 0
//@   ensures[!C02] (len(b) == 0 || b[len(b)-1] != 255) && n < 0 ==> result1 == 0 && result0 == 0
//@   ensures[!C02] n >= 1 && n <= 5 ==> result1 == n && result0 == varintVal(mem(b), hi(b), n)
//@   noalloc[C17]

//@ func ReverseUint64
//@   safety[C02]
//@   let n = varintSize(mem(b), lo(b), hi(b))
//@   ensures[C02] 0 <= result1 && result1 <= len(b) && result1 <= 9
//@   ensures[!C02] n < 0 ==> result1 == 0 && result0 == 0
//@   ensures[!C02] n >= 1 ==> result1 == n && result0 == varintVal(mem(b), hi(b), n)
//@   noalloc[C17]

//@ func ReverseInt32
//@   safety[C02]
//@   let n = varintSize(mem(b), lo(b), hi(b))
//@   ensures[C02] 0 - 1 <= result1 && result1 <= len(b) && result1 <= 5
//@   ensures[!C02] len(b) > 0 && b[len(b)-1] == 255 ==> result1 == 0 - 1 && result0 == 0
//@   ensures[!C02] (len(b) == 0 || b[len(b)-1] != 255) && n < 0 ==> result1 == 0 && result0 == 0
//@   ensures[!C02] n >= 1 && n <= 5 ==> result1 == n && result0 == unzigzag(varintVal(mem(b), hi(b), n))
//@   noalloc[C17]

//@ func ReverseInt64
//@   safety[C02]
//@   let n = varintSize(mem(b), lo(b), hi(b))
//@   ensures[C02] 0 <= result1 && result1 <= len(b) && result1 <= 9
//@   ensures[!C02] n < 0 ==> result1 == 0 && result0 == 0
//@   ensures[!C02] n >= 1 ==> result1 == n && result0 == unzigzag(varintVal(mem(b), hi(b), n))
//@   noalloc[C17]

// ---- encoders: the n bytes ending at the end of b are the canonical varint; nothing else changes

//@ func PutReverseUint32
//@   safety[C08]
//@   requires len(b) >= 5
//@   modifies uint8 at b
//@   ensures result == uvarintLen(v) && isUvarint(mem(b), hi(b) - result, result, v)
//@   ensures forall j :: (j < hi(b) - result || j >= hi(b)) ==> mem(b)[j] == old(mem(b))[j]
//@   noalloc[C17]

//@ func PutReverseUint64
//@   safety[C08]
//@   requires len(b) >= 9
//@   modifies uint8 at b
//@   ensures result == uvarintLen(v) && isUvarint(mem(b), hi(b) - result, result, v)
//@   ensures forall j :: (j < hi(b) - result || j >= hi(b)) ==> mem(b)[j] == old(mem(b))[j]
//@   noalloc[C17]

//@ func PutReverseInt32
//@   safety[C08]
//@   requires len(buf) >= 5
//@   modifies uint8 at buf
//@   ensures result == uvarintLen(zigzag(x)) && isUvarint(mem(buf), hi(buf) - result, result, zigzag(x))
//@   ensures forall j :: (j < hi(buf) - result || j >= hi(buf)) ==> mem(buf)[j] == old(mem(buf))[j]
//@   noalloc[C17]

//@ func PutReverseInt64
//@   safety[C08]
//@   requires len(buf) >= 9
//@   modifies uint8 at buf
//@   ensures result == uvarintLen(zigzag(x)) && isUvarint(mem(buf), hi(buf) - result, result, zigzag(x))
//@   ensures forall j :: (j < hi(buf) - result || j >= hi(buf)) ==> mem(buf)[j] == old(mem(buf))[j]
//@   noalloc[C17]
