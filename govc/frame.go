package main

import (
	"fmt"
	"sort"
	"strings"
)

// frameObligations: every memory the function may have changed, restricted to objects that
// existed at entry (id < $A0), must be covered by a `modifies` clause of its own contract.
// This is what lets callers keep their knowledge about everything a callee does not declare.
func (vc *VC) frameObligations(Rexit string, final *Mem, entry *Env) {
	var keys []string
	for k := range final.m {
		keys = append(keys, k)
	}
	sort.Strings(keys)
	for _, k := range keys {
		leaf := vc.keySort[k]
		m0 := "$M0_" + sanitize(k)
		if final.m[k] == m0 {
			continue
		}
		whole := false
		var objs []string
		if vc.con != nil {
			for _, md := range vc.con.Mods {
				if md.Loop != 0 {
					continue
				}
				if p, wild := isWildKey(md.Key); wild && strings.HasPrefix(k, p) {
					whole = true
					continue
				}
				if md.Key != k {
					continue
				}
				if md.AtE == nil {
					whole = true
				} else {
					objs = append(objs, objOf(vc.eval(md.AtE, entry)))
				}
			}
		}
		if whole {
			continue
		}
		vc.memGet(vc.mem0, k, leaf) // make sure $M0 is declared
		conds := []string{"(< 0 o)", "(< o $A0)"}
		for _, x := range objs {
			conds = append(conds, fmt.Sprintf("(not (= o %s))", x))
		}
		goal := fmt.Sprintf("(forall ((o Int)) (=> (and %s) (= (select %s o) (select %s o))))", strings.Join(conds, " "), final.m[k], m0)
		o := vc.oblige("frame", Rexit, goal, vc.fn.Pos(), "frame: memory "+k+" of objects that existed at entry is unchanged except where the contract says 'modifies'")
		o.Name = fmt.Sprintf("%s#frame.%s", vc.fname(), sanitize(k))
	}
}
