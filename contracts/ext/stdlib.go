//go:build verif

// ASSUMED contracts for standard-library functions whose bodies are not verified.
package ext

//@ package errors

//@ func New
//@   trusted
//@   ensures result != nil

//@ package fmt

//@ func Errorf
//@   trusted
//@   ensures result != nil

//@ func Sprintf
//@   trusted
//@   ensures true

//@ package math

//@ func IsInf
//@   trusted
//@   noalloc
//@   ensures result <==> ((sign >= 0 && isPosInf64(f)) || (sign <= 0 && isNegInf64(f)))

//@ package sort

// Search calls f only with 0 <= i < n (assumed; the closure is verified under that precondition).
//@ func Search
//@   trusted
//@   ensures 0 <= result && result <= n

//@ package strings
//@ func Clone
//@   trusted
//@   ensures result == s

//@ package strconv
//@ func ParseInt
//@   trusted
//@   modifies ghost.errMade at 0
//@   ensures result1 == nil && base == 10 && bitSize == 64 ==> result0 == ifun(atoi, s)
//@   ensures result1 != nil ==> ghost(errMade, 0) == 1
//@   ensures result1 == nil ==> ghost(errMade, 0) == old(ghost(errMade, 0))

//@ package text/scanner
// the scanner reports lexical errors by printing them and counting them in ErrorCount
//@ func (*Scanner).Init
//@   trusted
//@   modifies scanner.Scanner.*
//@   ensures result == s && s.ErrorCount == 0
//@ func (*Scanner).Scan
//@   trusted
//@   modifies scanner.Scanner.*
//@   modifies ghost.tokText.*
//@   ensures s.ErrorCount >= old(s.ErrorCount)
//@ func (*Scanner).TokenText
//@   trusted
//@   ensures result == gstr(tokText, s)

//@ package path/filepath
//@ func Join
//@   trusted
//@ func Base
//@   trusted
//@ package os
//@ func Stat
//@   trusted
//@ func IsNotExist
//@   trusted


//@ package strings
//@ func Trim
//@   trusted
//@   ensures cutset == "\"" ==> result == sfun(trimq, s)
