//go:build verif

// ASSUMED contracts of baselibrary/async flags (interfaces; no bodies are verified).
// ghost(flagSet, f) == 1 records that THIS call executing alone has set flag f.
package ext

//@ package github.com/basecomplextech/baselibrary/async/internal/flag

//@ iface MutFlag.Set
//@   modifies ghost.flagSet at recv
//@   ensures ghost(flagSet, recv) == 1

//@ iface MutFlag.Unset
//@   modifies ghost.flagSet at recv
//@   ensures ghost(flagSet, recv) == 0

// IsSet reads the flag: sequential view (the callers under contract read it while holding their mutex)
//@ iface MutFlag.IsSet
//@   ensures result <==> ghost(flagSet, recv) == 1
//@ iface MutFlag.Wait
//@ iface Flag.IsSet
//@ iface Flag.Wait
