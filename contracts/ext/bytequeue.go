//go:build verif

// ASSUMED contract of baselibrary/alloc/bytequeue.Queue (interface).
package ext

//@ package github.com/basecomplextech/baselibrary/alloc/bytequeue

//@ iface Queue.Reset
//@ iface Queue.Close
//@ iface Queue.Write
//@ iface Queue.Read
//@ iface Queue.ReadWait
