NA = {
 "C03": "order / exactly-once delivery over all interleavings of send loop, receive loop and user goroutines: not expressible as per-call contracts; per-hop payload integrity is covered under C01/C05 clauses but is not this property",
 "C06": "the property is the race window between channel-map lookup and reference-count increment under concurrent Free; sequentially acquire is trivially correct, nothing is left for a contract to decide",
 "C09": "every cut point x every blocked operation x bounded time x reconnection: fault sequences and liveness; no per-function contract states 'every waiter is released'",
 "C20": "exactly-once listener invocation when registration, unsubscription and close race: the sequential contract holds vacuously; the property lives in the interleavings",
}
checks.append(chk("C02",
 "Proof for all byte strings (no length bound): every index, slice, nil, unsafe-read and explicit-panic obligation, plus 0<=n<=len(b) and returned-data-inside-input postconditions, of every function of internal/decode, internal/format and internal/types, and of the compactint / encoding/binary / bin dependency functions they call, generated from the current source and discharged by SMT.",
 "Representation invariant of List/Message (table.data <= len(bytes)) is a precondition of their methods and a verified postcondition of every constructor; List.Get/GetBytes require 0<=i<Len (documented panic). errors.New / fmt.Errorf assumed non-nil. Termination of the ParseValue/ParseList/ParseMessage recursion is not checked. Not yet under contract: top-level generic list wrappers and generated struct decoders.",
 TECH, "DESIGN.md section 4 C02"))
checks.append(chk("C13",
 "Proof: every decoder, DecodeTypeSize, OpenValue and ParseValue/List/Message return, on success, exactly valueSize(b) - one SMT spec function that reads nothing before len(b)-n - so parse, open and probe agree and the result is a function of the value's own bytes.",
 "valueSize is the specification (written from the property text with literal type codes). Locality follows from valueSize/varintVal reading only indices >= len(b)-n (by construction of the spec functions); the nested-field re-read clause relies on ParseMessage/ParseList loop contracts. DecodeBool with a non-bool type byte is outside the statement.",
 TECH, "DESIGN.md section 4 C13"))
checks.append(chk("C10",
 "Proof over the full domain of each integer/byte/bool/bytes/string/bin type: decoder result equals the spec decoding of the wire bytes for every stored width of the same family, error exactly when not representable; truncated or foreign type codes are errors.",
 "Encoder and decoder are each verified against the same SMT spec functions; the round trip and every (stored width x read width) pair are ghost client programs (internal/verifh, build tag verif) whose postconditions are proved from the two callee CONTRACTS only. Floats use the SMT floating-point theory (one NaN value: NaN-iff-NaN; +0/-0 distinct); float64->float32 of an in-range value is IEEE round-to-nearest, which the statement's 'same value when representable' does not forbid. math.Float32bits/frombits are engine intrinsics (bit reinterpretation); math.IsInf is an assumed contract.",
 TECH, "DESIGN.md section 4 C10"))

checks.append(chk("C08",
 "Proof: for every encoder (bool, byte, ints, floats, bin64/128/256, bytes, string, struct trailer, list and message tables) the bytes appended to the buffer equal a spec function of the arguments only - literal type codes, big-endian fields, reverse compact varints with the 0xfc/0xffff/0xffffffff thresholds, NUL terminator, 3/6 and 2/4 byte table entries, big form exactly when a tag > 255, an offset > 65535 or more than 255 elements - and the bytes already in the buffer are preserved. buffer.Grow's assumed contract leaves the new bytes UNSPECIFIED, so dependence on buffer history cannot meet the postcondition.",
 "buffer.Buffer is an interface: its contract (Grow returns the n bytes after the old content, old content preserved, new bytes unspecified) is assumed. compactint.PutReverse*, encoding/binary PutUint*, bin MarshalTo are verified from source, not assumed. The 'independent reference implementation' of the statement is played by the SMT spec functions (written from the property text with literal constants). Writer-level ordering of table entries (sorted by tag) is under C01/C12.",
 TECH, "DESIGN.md section 4 C08"))
checks.append(chk("C16",
 "Proof of the library clauses the property rests on: lookup by tag in a serialized table returns the offset of an entry carrying exactly that tag (never another field's), and -1 when a sorted table has none - independent of every other entry; absent fields (nil bytes) decode to the zero value with size 0 and no error for every scalar, bytes, string, list and message decoder; field bytes are a prefix view of the message's own bytes.",
 "Scope: the dynamic tag-based API (format.MessageTable, types.Message, the decoders). Not yet included: MessageWriter.Copy/Merge preserving unknown fields, and generated accessors of evolved schemas (C05 translation validation).",
 TECH, "DESIGN.md section 4 C16"))
checks.append(chk("C18",
 "Proof, with obligations GENERATED FROM EACH STRUCT'S FIELD LIST, that the release/reset of every pooled object leaves every field at its zero value except the ones listed as deliberately retained (backing arrays, the drained wake-up slot, the emptied byte queue, mutexes): writer state (releaseWriterState, writerState.init/reset), mpx channel state and channel handler, rpc client and server call states. A field added later and forgotten by a reset fails its own generated obligation.",
 "Sequential clause of the property only: that an object is never held by two goroutines, and data-race freedom, are schedule properties and are not decided. rpc requestState.reset rebuilds its writers instead of zeroing and is not under contract. pools.Pool is an assumed interface (New returns some non-nil object whose contents are NOT assumed).",
 TECH, "DESIGN.md section 4 C18"))
checks.append(chk("C19",
 "Proof for every attempt number (all 2^63 values, no bound): reconnectTimeout(a) for a >= 2 equals min(1 s, 25 ms * (2^a - 2)), lies in [25 ms, 1 s], and (ghost client program, proved from the contract alone) never decreases from one attempt to the next; no signed overflow in the computation.",
 "Only the back-off clause of the property is decided. The flag consistency (Connected/Disconnected), the max-connections bound, Close being terminal and reconnection after server restart are properties of interleavings / fault sequences and are not decided by this check.",
 TECH, "DESIGN.md section 4 C19"))
checks.append(chk("C07",
 "Proof of the sender's admission rule for all int32 window and message sizes: decrementSendWindow debits the window at most once, by exactly the message size, and only after loading a free window w with w >= size or w >= W/2 (truncating division); and it waits only when w < size and w < W/2 - asserted at the wait point from the property text, so both a looser and a stricter admission rule fail. The atomic's Load returns an arbitrary value (any interference from window updates).",
 "Scope: the admission decision in (*channelState).decrementSendWindow. Not decided: the acknowledgement rule in ReceiveAsync, the exemption of the first/closing message, conservation across the wire and the absence of lost wake-ups (interleavings). sync/atomic, async.Context and select are modelled by assumed contracts / nondeterministic choice.",
 TECH, "DESIGN.md section 4 C07"))
