package main

import (
	"regexp"
	"fmt"
	"go/token"
	"go/types"
	"sort"
	"strings"

	"golang.org/x/tools/go/ssa"
)

func (vc *VC) call(c *ssa.CallCommon, res *ssa.Call, pos token.Pos) SVal {
	R := vc.R[vc.cur]
	var rt types.Type = c.Signature().Results()
	if res != nil {
		rt = res.Type()
	}
	if c.IsInvoke() {
		recv := vc.val(c.Value)
		rtyp := types.Unalias(c.Value.Type())
		if nt, ok := rtyp.(*types.Named); ok && nt.TypeArgs() != nil && nt.TypeArgs().Len() > 0 {
			rtyp = nt.Origin() // contracts of generic interfaces are keyed by the uninstantiated type
		}
		key := "(" + typeString(rtyp) + ")." + c.Method.Name()
		if i := strings.Index(key, "["); i >= 0 {
			if j := strings.LastIndex(key, "]"); j > i {
				key = key[:i] + key[j+1:]
			}
		}
		con := vc.eng.contracts.M[key]
		if con == nil {
			// a method inherited from an embedded interface: its contract is keyed by the
			// interface that declares it
			if rv := c.Method.Type().(*types.Signature).Recv(); rv != nil {
				k2 := "(" + typeString(types.Unalias(rv.Type())) + ")." + c.Method.Name()
				if i := strings.Index(k2, "["); i >= 0 {
					if j := strings.LastIndex(k2, "]"); j > i {
						k2 = k2[:i] + k2[j+1:]
					}
				}
				if c2 := vc.eng.contracts.M[k2]; c2 != nil {
					con, key = c2, k2
				}
			}
		}
		args := []SVal{recv}
		names := []string{"recv"}
		sig := c.Method.Type().(*types.Signature)
		for i, a := range c.Args {
			args = append(args, vc.coerce(vc.val(a), sig.Params().At(i).Type()))
			n := sig.Params().At(i).Name()
			if n == "" || n == "_" {
				n = fmt.Sprintf("arg%d", i)
			}
			names = append(names, n)
		}
		vc.oblige("nil", R, not(eq(recv.S, "0")), pos, "method call on nil interface")
		return vc.applyContract(con, key, names, args, sig, rt, pos)
	}
	switch f := c.Value.(type) {
	case *ssa.Builtin:
		return vc.builtin(f, c, rt, pos)
	case *ssa.Function:
		key := f.String()
		if f.Origin() != nil {
			key = f.Origin().String()
		}
		con := vc.eng.contracts.M[key]
		if con == nil && strings.Contains(key, "[") {
			// method of a generic type: contracts are keyed without the type parameter list
			if c2 := vc.eng.contracts.M[reTypeArgs.ReplaceAllString(key, "")]; c2 != nil {
				con = c2
			}
		}
		var args []SVal
		var names []string
		sig := f.Signature
		np := sig.Params().Len()
		ai := 0
		if sig.Recv() != nil {
			args = append(args, vc.val(c.Args[0]))
			n := sig.Recv().Name()
			if n == "" || n == "_" {
				n = "recv"
			}
			names = append(names, n)
			ai = 1
		}
		for i := 0; i < np; i++ {
			args = append(args, vc.coerce(vc.val(c.Args[ai+i]), sig.Params().At(i).Type()))
			n := sig.Params().At(i).Name()
			if n == "" || n == "_" {
				n = fmt.Sprintf("arg%d", i)
			}
			names = append(names, n)
		}
		if key == "sort.Search" && len(c.Args) == 2 {
			// the exact exit state of the binary search when f is a function literal (inline.go);
			// otherwise the assumed contract (0 <= result <= n)
			if r, ok := vc.sortSearch(c, pos); ok {
				vc.nCalls++
				return r
			}
		}
		if con == nil {
			if r, ok := vc.intrinsic(f, args, rt, pos); ok {
				return r
			}
			if f.Origin() == nil && vc.canInline(f) {
				vc.nCalls++
				return vc.inlineCall(f, key, args, pos)
			}
		}
		return vc.applyContract(con, key, names, args, sig, rt, pos)
	case *ssa.MakeClosure:
		unsup("call of closure")
	}
	// dynamic call through a function value
	vc.note("dynamic call through function value at %s: results and all memory havocked, callee panics not excluded", vc.eng.prog.Fset.Position(pos))
	vc.havocAll()
	vc.nallocCall(nil, nil, "dynamic call")
	return vc.fresh(rt, "dyn")
}

// valueOnlyStdlib: key names a function of a dot-free (standard library) import path and every
// parameter is a basic type (string, number, bool).
func valueOnlyStdlib(key string, sig *types.Signature) bool {
	if sig.Recv() != nil || strings.HasPrefix(key, "(") {
		return false
	}
	i := strings.LastIndex(key, ".")
	if i < 0 || strings.Contains(key[:i], ".") {
		return false
	}
	for j := 0; j < sig.Params().Len(); j++ {
		if _, ok := sig.Params().At(j).Type().Underlying().(*types.Basic); !ok {
			return false
		}
	}
	return !sig.Variadic()
}

var reTypeArgs = regexp.MustCompile(`\[[^\[\]]*\]`)

func typeString(T types.Type) string { return types.TypeString(T, nil) }

func (vc *VC) havocAll() {
	for k := range vc.keySort {
		vc.checkLoopStore(k, "*")
	}
	vc.havocPrefix(vc.curMem, "") // every memory, including keys not touched so far
	vc.epochBound[vc.epoch] = vc.callBound()
	vc.havocked = true
}

// intrinsic: functions given their exact semantics by the engine.
func (vc *VC) intrinsic(f *ssa.Function, args []SVal, rt types.Type, pos token.Pos) (SVal, bool) {
	switch f.String() {
	// bit reinterpretation: abstract functions of the prelude (f32bits/f32OfBits are inverse on
	// values; the pattern itself is opaque). Assumed semantics of the math package intrinsics.
	case "math.Float32bits":
		vc.note("math.Float32bits/Float32frombits: abstract inverse bit reinterpretations (assumed)")
		return intV(sx("f32bits", args[0].S), rt), true
	case "math.Float64bits":
		vc.note("math.Float64bits/Float64frombits: abstract inverse bit reinterpretations (assumed)")
		return intV(sx("f64bits", args[0].S), rt), true
	case "math.Float32frombits":
		vc.note("math.Float32bits/Float32frombits: abstract inverse bit reinterpretations (assumed)")
		return SVal{K: KFloat, T: rt, S: sx("f32OfBits", args[0].S)}, true
	case "math.Float64frombits":
		vc.note("math.Float64bits/Float64frombits: abstract inverse bit reinterpretations (assumed)")
		return SVal{K: KFloat, T: rt, S: sx("f64OfBits", args[0].S)}, true
	}
	return SVal{}, false
}

// applyContract: obligations for requires, havoc modifies, assume ensures.
func (vc *VC) applyContract(con *Contract, key string, names []string, args []SVal, sig *types.Signature, rt types.Type, pos token.Pos) SVal {
	R := vc.R[vc.cur]
	vc.nCalls++
	if con == nil {
		vc.nallocCall(nil, nil, key)
		vc.uncontracted[key] = true
		if valueOnlyStdlib(key, sig) {
			// A standard-library function whose parameters and receiver are numbers, booleans and
			// strings holds no reference to caller-visible memory: it cannot write any. Its result
			// is arbitrary (a fresh value); its panics are not excluded.
			vc.note("call to %s without contract: standard-library function with value-only parameters - result arbitrary, no memory written, callee panics not excluded", key)
			return vc.fresh(rt, "uc")
		}
		if len(vc.enclosingLoops(vc.cur)) > 0 {
			unsup("call to %s (no contract) inside a loop: it may modify any memory", key)
		}
		vc.note("call to %s without contract: results and all memory havocked, callee panics not excluded", key)
		vc.havocAll()
		return vc.fresh(rt, "uc")
	}
	vc.usedCon[key] = true
	pre := vc.curMem.clone()
	env := &Env{vc: vc, vars: map[string]SVal{}, mem: pre}
	for i, n := range names {
		env.vars[n] = args[i]
	}
	vc.eng.aliasEnv(env, key)
	if len(names) > 0 && sig.Recv() != nil || con.IsIface {
		env.vars["recv"] = args[0]
	}
	for _, a := range con.Allocs {
		env.vars[a] = mkInt(vc.newObj())
	}
	for _, l := range con.Lets {
		env.vars[l.Name] = vc.nameQuantLet(l.Name, vc.eval(l.E, env))
	}
	for _, r := range con.Requires {
		o := vc.oblige("requires", R, vc.evalBool(r.E, env), pos, fmt.Sprintf("precondition %d of %s: %s", r.Ord, shortFuncName(key), r.Text))
		o.Safety = true
	}
	// whatever the callee allocated lies below a new, larger allocation bound
	cb := vc.callBound()
	vc.pendingBound = cb
	// modifies
	epoch0 := vc.epoch
	var exactMods []string
	for _, m := range con.Mods {
		if m.Loop != 0 {
			continue
		}
		if _, wild := isWildKey(m.Key); !wild {
			exactMods = append(exactMods, m.Key)
		}
		if p, wild := isWildKey(m.Key); wild {
			vc.checkLoopStore(p, "*")
			vc.havocPrefix(vc.curMem, p)
			continue
		}
		leaf, ok := vc.keySort[m.Key]
		if !ok {
			leaf = vc.eng.keySortHint(m.Key)
		}
		M := vc.memGet(vc.curMem, m.Key, leaf)
		if m.AtE == nil {
			vc.checkLoopStore(m.Key, "*")
			vc.curMem.m[m.Key] = vc.declMem(vc.sym("Mc_"+m.Key), m.Key, leaf, true)
		} else {
			obj := objOf(vc.eval(m.AtE, env))
			vc.checkLoopStore(m.Key, obj)
			a := vc.declMem(vc.sym("Ac_"+m.Key), m.Key, leaf, false)
			vc.curMem.m[m.Key] = vc.def("Mc_"+m.Key, memSort(leaf), sto(M, obj, a))
		}
	}
	vc.pendingBound = ""
	for ep := epoch0 + 1; ep <= vc.epoch; ep++ {
		vc.epochBound[ep] = cb
	}
	result := vc.fresh(rt, "r_"+lastSeg(key))
	vc.objsBelow(result, cb)
	post := &Env{vc: vc, vars: map[string]SVal{}, mem: vc.curMem, old: env}
	for k, v := range env.vars {
		post.vars[k] = v
	}
	bindResults(post, sig, result)
	vc.eng.aliasEnv(post, key)
	vc.nallocCall(con, post, key)
	// preserves cond: patterns  -> matching memories equal the pre-call ones when cond holds
	for _, pc := range con.Preserves {
		cond := vc.evalBool(pc.E, post)
		for ep := epoch0 + 1; ep <= vc.epoch; ep++ {
			vc.aliases[ep] = append(vc.aliases[ep], memAlias{patterns: pc.Patterns, cond: cond, guard: R, pre: pre})
		}
		for _, k := range exactMods {
			if cur, ok := vc.curMem.m[k]; ok && keyMatches(pc.Patterns, k) {
				vc.fact(R, implies(cond, eq(cur, vc.memGet(pre, k, vc.keySort[k]))))
			}
		}
	}
	if len(con.Preserves) > 0 {
		// keys of the new epochs that were materialised before the aliases were registered
		var ks []string
		for k := range vc.curMem.m {
			ks = append(ks, k)
		}
		sort.Strings(ks)
		for _, k := range ks {
			name := vc.curMem.m[k]
			for ep := epoch0 + 1; ep <= vc.epoch; ep++ {
				if name == fmt.Sprintf("$Mw%d_%s", ep, sanitize(k)) && !vc.declared["pres:"+name] {
					vc.declared["pres:"+name] = true
					for _, a := range vc.aliases[ep] {
						if a.matches(k) {
							vc.fact(a.guard, implies(a.cond, eq(name, vc.memGet(a.pre, k, vc.keySort[k]))))
						}
					}
				}
			}
		}
	}
	for _, e := range con.Ensures {
		// a property's check assumes only what the same run verifies: untagged clauses and
		// clauses tagged with the property being checked
		if vc.prop != "" && len(e.Tags) > 0 && !hasTag(e.Tags, vc.prop) {
			// assumed here, verified by the check of the property the clause is tagged with
			vc.crossAssumed[shortFuncName(key)+" ["+strings.Join(e.Tags, ",")+"]"] = true
		}
		vc.fact(R, vc.evalBool(e.E, post))
	}
	return result
}

func lastSeg(s string) string {
	if i := strings.LastIndex(s, "."); i >= 0 {
		return s[i+1:]
	}
	return s
}

func bindResults(env *Env, sig *types.Signature, result SVal) {
	rs := sig.Results()
	// noerr: the last result, when it is an error, is nil (true for functions without error result)
	env.vars["noerr"] = boolV("true")
	if n := rs.Len(); n > 0 && types.TypeString(rs.At(n-1).Type(), nil) == "error" {
		last := result
		if n > 1 {
			last = result.F[n-1]
		}
		if last.K == KRef {
			env.vars["noerr"] = boolV(eq(last.S, "0"))
		}
	}
	switch rs.Len() {
	case 0:
	case 1:
		env.vars["result"] = result
		env.vars["result0"] = result
		if n := rs.At(0).Name(); n != "" && n != "_" {
			env.vars[n] = result
		}
	default:
		for i := 0; i < rs.Len(); i++ {
			env.vars[fmt.Sprintf("result%d", i)] = result.F[i]
			if n := rs.At(i).Name(); n != "" && n != "_" {
				env.vars[n] = result.F[i]
			}
		}
	}
}

// builtins -----------------------------------------------------------------

func (vc *VC) builtin(f *ssa.Builtin, c *ssa.CallCommon, rt types.Type, pos token.Pos) SVal {
	R := vc.R[vc.cur]
	switch f.Name() {
	case "delete":
		MT := c.Args[0].Type().Underlying().(*types.Map)
		vc.mapDelete(vc.val(c.Args[0]), vc.val(c.Args[1]), MT)
		return SVal{}
	case "len":
		v := vc.val(c.Args[0])
		switch v.K {
		case KSlice, KString:
			return intV(v.ln(), rt)
		case KArr:
			return intV(litI(c.Args[0].Type().Underlying().(*types.Array).Len()), rt)
		case KRef: // map / chan
			r := vc.fresh(rt, "maplen")
			vc.fact("true", le("0", r.S))
			return r
		case KPtr:
			if pt, ok := c.Args[0].Type().Underlying().(*types.Pointer); ok {
				if a, ok := pt.Elem().Underlying().(*types.Array); ok {
					return intV(litI(a.Len()), rt)
				}
			}
		}
	case "cap":
		v := vc.val(c.Args[0])
		if v.K == KSlice {
			return intV(v.cp(), rt)
		}
	case "copy":
		dst, src := vc.val(c.Args[0]), vc.val(c.Args[1])
		return vc.copyBuiltin(dst, src, c.Args[0].Type(), rt)
	case "append":
		return vc.appendBuiltin(c, rt)
	case "min", "max":
		a := vc.val(c.Args[0])
		for _, o := range c.Args[1:] {
			b := vc.val(o)
			if f.Name() == "min" {
				a = intV(ite(le(a.S, b.S), a.S, b.S), rt)
			} else {
				a = intV(ite(le(a.S, b.S), b.S, a.S), rt)
			}
		}
		return a
	case "Add": // unsafe.Add
		p := vc.val(c.Args[0])
		n := vc.val(c.Args[1]).S
		r := p
		r.F = []SVal{p.F[0], mkInt(vc.def("ua", SInt, add(p.off(), n)))}
		r.Unsafe = true
		return r
	case "clear":
		unsup("clear builtin")
	case "print", "println":
		return SVal{K: KTuple}
	}
	_ = R
	unsup("builtin %s", f.Name())
	return SVal{}
}

// elemLeafKeys lists the memory keys (with sort) that hold one element of type el.
func (vc *VC) elemLeafKeys(el types.Type) (keys []string, sorts []Sort) {
	switch u := el.Underlying().(type) {
	case *types.Struct:
		for i := 0; i < u.NumFields(); i++ {
			f := u.Field(i)
			switch f.Type().Underlying().(type) {
			case *types.Struct, *types.Array:
				unsup("slice element with nested struct/array field")
			}
			vc.build(f.Type(), "", func(path string, sort Sort, lt types.Type) string {
				keys = append(keys, typeKey(el)+"."+f.Name()+path)
				sorts = append(sorts, sort)
				return ""
			})
		}
	case *types.Array:
		return vc.elemLeafKeys(flatElem(el))
	default:
		vc.build(el, "", func(path string, sort Sort, lt types.Type) string {
			keys = append(keys, typeKey(el)+path)
			sorts = append(sorts, sort)
			return ""
		})
	}
	return
}

func (vc *VC) copyBuiltin(dst, src SVal, dstT types.Type, rt types.Type) SVal {
	el := dstT.Underlying().(*types.Slice).Elem()
	n := vc.def("cpn", SInt, ite(le(dst.ln(), src.ln()), dst.ln(), src.ln()))
	fl := flatLen(el)
	cells := mul(n, litI(fl))
	keys, sorts := vc.elemLeafKeys(el)
	for i, k := range keys {
		M := vc.memGet(vc.curMem, k, sorts[i])
		vc.checkLoopStore(k, dst.obj())
		a := vc.declare(vc.sym("cp_"+k), arrSort(sorts[i]))
		oldD := vc.def("cpd", arrSort(sorts[i]), sel(M, dst.obj()))
		oldS := vc.def("cps", arrSort(sorts[i]), sel(M, src.obj()))
		// copied cells: for j in [doff, doff+cells) (the trigger is any read of the new array)
		vc.emit(fmt.Sprintf("(assert (forall ((j Int)) (! (=> (and (<= %s j) (< j (+ %s %s))) (= (select %s j) (select %s (+ (- j %s) %s)))) :pattern ((select %s j)))))",
			dst.off(), dst.off(), cells, a, oldS, dst.off(), src.off(), a))
		// frame
		vc.emit(fmt.Sprintf("(assert (forall ((j Int)) (! (=> (or (< j %s) (>= j (+ %s %s))) (= (select %s j) (select %s j))) :pattern ((select %s j)))))",
			dst.off(), dst.off(), cells, a, oldD, a))
		vc.curMem.m[k] = vc.def("M_"+k, memSort(sorts[i]), sto(M, dst.obj(), a))
	}
	return intV(n, rt)
}

func (vc *VC) appendBuiltin(c *ssa.CallCommon, rt types.Type) SVal {
	s := vc.coerce(vc.val(c.Args[0]), rt)
	t := vc.coerce(vc.val(c.Args[1]), c.Args[1].Type())
	el := rt.Underlying().(*types.Slice).Elem()
	var tl string
	if t.K == KString {
		tl = t.ln()
	} else {
		tl = t.ln()
	}
	// result: either in place (capacity suffices) or a fresh object; both are covered by
	// leaving the choice to the solver, constrained by Go's rule.
	r := vc.fresh(rt, "app")
	newLen := vc.def("apl", SInt, add(s.ln(), tl))
	fits := le(newLen, s.cp())
	fobj := vc.newObj()
	vc.nallocAppend(not(fits))
	vc.fact("true", eq(r.ln(), newLen))
	vc.fact("true", le(newLen, r.cp()))
	vc.fact("true", ite(fits, and(eq(r.obj(), s.obj()), eq(r.off(), s.off()), eq(r.cp(), s.cp())), and(eq(r.obj(), fobj), eq(r.off(), "0"))))
	keys, sorts := vc.elemLeafKeys(el)
	fl := litI(flatLen(el))
	for i, k := range keys {
		M := vc.memGet(vc.curMem, k, sorts[i])
		vc.checkLoopStore(k, r.obj())
		a := vc.declare(vc.sym("ap_"+k), arrSort(sorts[i]))
		oldR := vc.def("apo", arrSort(sorts[i]), sel(M, s.obj()))
		srcA := vc.def("aps", arrSort(sorts[i]), sel(M, t.obj()))
		// old elements preserved
		// (absolute index j; the trigger is any read of the new array)
		// (the source index is written idx(off, k) so that quantified facts about the old slice,
		// whose elements are addressed idx(off, i), are instantiated at k)
		vc.emit(fmt.Sprintf("(assert (forall ((j Int)) (! (=> (and (<= %s j) (< j (+ %s (* %s %s)))) (= (select %s j) (select %s (idx %s (- j %s))))) :pattern ((select %s j)))))",
			r.off(), r.off(), s.ln(), fl, a, oldR, s.off(), r.off(), a))
		// appended elements
		vc.emit(fmt.Sprintf("(assert (forall ((j Int)) (! (=> (and (<= (+ %s (* %s %s)) j) (< j (+ %s (* %s %s)))) (= (select %s j) (select %s (+ (- j (+ %s (* %s %s))) %s)))) :pattern ((select %s j)))))",
			r.off(), s.ln(), fl, r.off(), newLen, fl, a, srcA, r.off(), s.ln(), fl, t.off(), a))
		// in-place: cells outside the appended range keep their value
		vc.emit(fmt.Sprintf("(assert (=> %s (forall ((j Int)) (! (=> (or (< j (+ %s (* %s %s))) (>= j (+ %s (* %s %s)))) (= (select %s j) (select %s j))) :pattern ((select %s j))))))",
			fits, s.off(), s.ln(), fl, s.off(), newLen, fl, a, oldR, a))
		vc.curMem.m[k] = vc.def("M_"+k, memSort(sorts[i]), sto(M, r.obj(), a))
	}
	return r
}
