package main

import (
	"fmt"
	"go/types"
	"math/big"
	"strings"
)

// Env: evaluation environment for contract expressions.
type Env struct {
	vc    *VC
	vars  map[string]SVal
	mem   *Mem
	old   *Env
	bound map[string]bool
}

func (vc *VC) evalBool(e Expr, env *Env) string {
	v := vc.eval(e, env)
	if v.K != KBool {
		unsup("contract expression %s is not boolean", e)
	}
	return v.S
}

func (env *Env) child() *Env {
	n := &Env{vc: env.vc, vars: map[string]SVal{}, mem: env.mem, old: env.old, bound: map[string]bool{}}
	for k, v := range env.vars {
		n.vars[k] = v
	}
	for k := range env.bound {
		n.bound[k] = true
	}
	return n
}

func (vc *VC) eval(e Expr, env *Env) SVal {
	switch x := e.(type) {
	case *EInt:
		n, ok := new(big.Int).SetString(x.V, 0)
		if !ok {
			unsup("bad integer literal %s", x.V)
		}
		return mkInt(lit(n))
	case *EStr:
		return vc.constStr(types.Typ[types.String], x.V)
	case *EIdent:
		switch x.Name {
		case "true", "false":
			return boolV(x.Name)
		case "nil":
			return refV("0", types.Typ[types.UntypedNil])
		}
		if v, ok := env.vars[x.Name]; ok {
			return v
		}
		if c, ok := vc.eng.specConsts[x.Name]; ok {
			return mkInt(c)
		}
		unsup("contract of %s: unknown identifier %q", vc.fn.Name(), x.Name)
	case *EOld:
		if env.old == nil {
			return vc.eval(x.X, env) // in a precondition old(e) == e
		}
		o := env.old
		// bound variables stay visible inside old()
		if len(env.bound) > 0 {
			o = o.child()
			for k := range env.bound {
				o.vars[k] = env.vars[k]
				o.bound[k] = true
			}
		}
		return vc.eval(x.X, o)
	case *EUn:
		v := vc.eval(x.X, env)
		switch x.Op {
		case "!":
			return boolV(not(v.S))
		case "-":
			return mkInt(sub("0", v.S))
		}
	case *EBin:
		return vc.evalBin(x, env)
	case *EQuant:
		c := env.child()
		var decl []string
		for _, v := range x.Vars {
			name := "q_" + v
			c.vars[v] = mkInt(name)
			c.bound[v] = true
			decl = append(decl, fmt.Sprintf("(%s Int)", name))
		}
		body := vc.evalBool(x.Body, c)
		q := "exists"
		if x.Forall {
			q = "forall"
		}
		return boolV(fmt.Sprintf("(%s (%s) %s)", q, strings.Join(decl, " "), body))
	case *EField:
		v := vc.eval(x.X, env)
		return vc.evalField(v, x.Name, env)
	case *EIndex:
		v := vc.eval(x.X, env)
		i := vc.eval(x.I, env).S
		return vc.evalIndex(v, i, env)
	case *ESlice:
		v := vc.eval(x.X, env)
		lo := "0"
		if x.Lo != nil {
			lo = vc.eval(x.Lo, env).S
		}
		switch v.K {
		case KSlice:
			hi := v.ln()
			if x.Hi != nil {
				hi = vc.eval(x.Hi, env).S
			}
			fl := litI(flatLen(v.T.Underlying().(*types.Slice).Elem()))
			return sliceV(v.T, v.obj(), add(v.off(), mul(lo, fl)), sub(hi, lo), sub(v.cp(), lo))
		case KString:
			hi := v.ln()
			if x.Hi != nil {
				hi = vc.eval(x.Hi, env).S
			}
			return stringV(v.T, v.obj(), add(v.off(), lo), sub(hi, lo))
		}
		unsup("slice expression on %v", v.T)
	case *ECall:
		return vc.evalCall(x, env)
	}
	unsup("cannot evaluate %s", e)
	return SVal{}
}

func (vc *VC) evalBin(x *EBin, env *Env) SVal {
	switch x.Op {
	case "==>":
		return boolV(implies(vc.evalBool(x.L, env), vc.evalBool(x.R, env)))
	case "<==>":
		return boolV(eq(vc.evalBool(x.L, env), vc.evalBool(x.R, env)))
	case "&&":
		return boolV(and(vc.evalBool(x.L, env), vc.evalBool(x.R, env)))
	case "||":
		return boolV(or(vc.evalBool(x.L, env), vc.evalBool(x.R, env)))
	}
	a, b := vc.eval(x.L, env), vc.eval(x.R, env)
	switch x.Op {
	case "==", "!=":
		e := vc.specEqual(a, b)
		if x.Op == "!=" {
			e = not(e)
		}
		return boolV(e)
	case "<", "<=", ">", ">=":
		if a.K == KFloat {
			op := map[string]string{"<": "fp.lt", "<=": "fp.leq", ">": "fp.gt", ">=": "fp.geq"}[x.Op]
			return boolV(sx(op, a.S, b.S))
		}
		return boolV(sx(x.Op, a.S, b.S))
	case "+":
		return mkInt(add(a.S, b.S))
	case "-":
		return mkInt(sub(a.S, b.S))
	case "*":
		return mkInt(mul(a.S, b.S))
	case "/":
		return mkInt(sx("div", a.S, b.S))
	case "%":
		return mkInt(sx("mod", a.S, b.S))
	}
	unsup("operator %s", x.Op)
	return SVal{}
}

func (vc *VC) specEqual(a, b SVal) string {
	isNil := func(v SVal) bool { return v.K == KRef && v.S == "0" }
	// struct-typed fields read lazily: compare the stored struct values, not their addresses
	force := func(v SVal) SVal {
		if v.K == KPtr && v.LazyMem != nil {
			return vc.loadSpec(v, v.T.Underlying().(*types.Pointer).Elem(), v.LazyMem)
		}
		return v
	}
	a, b = force(a), force(b)
	switch {
	case isNil(b) && (a.K == KSlice || a.K == KPtr || a.K == KString):
		return eq(a.obj(), "0")
	case isNil(a) && (b.K == KSlice || b.K == KPtr || b.K == KString):
		return eq(b.obj(), "0")
	}
	switch a.K {
	case KInt, KBool, KRef, KArr:
		return eq(a.S, b.S)
	case KFloat:
		return eq(a.S, b.S)
	case KSlice, KString:
		// same view: same object, offset, length
		if b.K != KSlice && b.K != KString {
			unsup("comparison of slice with non-slice")
		}
		// comparison with a string literal is by content
		if a.K == KString && b.K == KString {
			return vc.stringEq(a, b) // Go's == on strings: equal content
		}
		return and(eq(a.obj(), b.obj()), eq(a.off(), b.off()), eq(a.ln(), b.ln()))
	case KPtr:
		return and(eq(a.obj(), b.obj()), eq(a.off(), b.off()))
	case KStruct, KTuple:
		if len(a.F) != len(b.F) {
			unsup("comparison of differently shaped values")
		}
		var ps []string
		for i := range a.F {
			ps = append(ps, vc.specEqual(a.F[i], b.F[i]))
		}
		return and(ps...)
	}
	unsup("equality in contract")
	return ""
}

func (vc *VC) evalField(v SVal, name string, env *Env) SVal {
	switch v.K {
	case KStruct:
		st := v.T.Underlying().(*types.Struct)
		for i := 0; i < st.NumFields(); i++ {
			if st.Field(i).Name() == name {
				return v.F[i]
			}
		}
		// promoted field through embedded struct / pointer
		for i := 0; i < st.NumFields(); i++ {
			if st.Field(i).Embedded() {
				if r, ok := vc.tryField(v.F[i], name, env); ok {
					return r
				}
			}
		}
	case KPtr:
		pt, ok := v.T.Underlying().(*types.Pointer)
		if !ok {
			break
		}
		st, ok := pt.Elem().Underlying().(*types.Struct)
		if !ok {
			break
		}
		for i := 0; i < st.NumFields(); i++ {
			if st.Field(i).Name() == name {
				fp := vc.fieldPtr(v, pt.Elem(), i)
				switch st.Field(i).Type().Underlying().(type) {
				case *types.Struct:
					// stay a pointer so that further selections read lazily
					fp.LazyMem = env.mem
					return fp
				}
				return vc.loadSpec(fp, st.Field(i).Type(), env.mem)
			}
		}
		for i := 0; i < st.NumFields(); i++ {
			if st.Field(i).Embedded() {
				fp := vc.fieldPtr(v, pt.Elem(), i)
				var inner SVal
				if _, isSt := st.Field(i).Type().Underlying().(*types.Struct); isSt {
					inner = fp
				} else {
					inner = vc.loadSpec(fp, st.Field(i).Type(), env.mem)
				}
				if r, ok := vc.tryField(inner, name, env); ok {
					return r
				}
			}
		}
	}
	unsup("contract: no field %q in %v", name, v.T)
	return SVal{}
}

func (vc *VC) tryField(v SVal, name string, env *Env) (r SVal, ok bool) {
	defer func() {
		if x := recover(); x != nil {
			if _, is := x.(unsupported); is {
				ok = false
				return
			}
			panic(x)
		}
	}()
	return vc.evalField(v, name, env), true
}

// loadSpec: a load for specification purposes (no obligations, no loop discipline).
func (vc *VC) loadSpec(p SVal, T types.Type, m *Mem) SVal {
	if _, isArr := T.Underlying().(*types.Array); isArr {
		el := flatElem(T)
		key := typeKey(el)
		inner := sel(vc.memGet(m, key, SInt), p.obj())
		if p.off() != "0" {
			unsup("spec read of array value at non-zero offset")
		}
		return SVal{K: KArr, T: T, S: inner}
	}
	if st, isSt := T.Underlying().(*types.Struct); isSt {
		v := SVal{K: KStruct, T: T}
		for i := 0; i < st.NumFields(); i++ {
			v.F = append(v.F, vc.loadSpec(vc.fieldPtr(p, T, i), st.Field(i).Type(), m))
		}
		return v
	}
	key := p.Key
	if key == "" {
		key = typeKey(T)
	}
	return vc.build(T, "", func(path string, sort Sort, lt types.Type) string {
		vc.keyType[key+path] = lt
		return vc.leafLoad(m, key+path, sort, p.obj(), p.off())
	})
}

func (vc *VC) evalIndex(v SVal, i string, env *Env) SVal {
	switch v.K {
	case KRef:
		if MT, ok := v.T.Underlying().(*types.Map); ok {
			kv := mkInt(i)
			return vc.mapGet(env.mem, v, MT, kv)
		}
	case KSlice:
		el := v.T.Underlying().(*types.Slice).Elem()
		p := ptrV(types.NewPointer(el), v.obj(), idx(v.off(), mul(i, litI(flatLen(el)))))
		p.Key = ptrKeyFor(el)
		if _, isArr := el.Underlying().(*types.Array); isArr {
			p.Key = typeKey(flatElem(el))
		}
		if _, isSt := el.Underlying().(*types.Struct); isSt {
			return p // lazily: fields are read on selection
		}
		return vc.loadSpec(p, el, env.mem)
	case KString:
		return intV(vc.leafLoad(env.mem, "uint8", SInt, v.obj(), idx(v.off(), i)), types.Typ[types.Uint8])
	case KArr:
		if v.T == nil {
			return mkInt(sel(v.S, i))
		}
		return intV(sel(v.S, i), flatElem(v.T))
	case KPtr:
		// pointer to array
		if pt, ok := v.T.Underlying().(*types.Pointer); ok {
			if arr, ok := pt.Elem().Underlying().(*types.Array); ok {
				return intV(vc.leafLoad(env.mem, typeKey(flatElem(arr)), SInt, v.obj(), idx(v.off(), i)), flatElem(arr))
			}
		}
	}
	unsup("contract: index on %v", v.T)
	return SVal{}
}

// autoDeref: a pointer to a slice or string (captured variable of a closure) reads as its value.
func (vc *VC) autoDeref(v SVal, env *Env) SVal {
	if v.K == KPtr && v.T != nil {
		if pt, ok := v.T.Underlying().(*types.Pointer); ok {
			switch pt.Elem().Underlying().(type) {
			case *types.Slice, *types.Basic:
				return vc.loadSpec(v, pt.Elem(), env.mem)
			}
		}
	}
	return v
}

func (vc *VC) evalCall(x *ECall, env *Env) SVal {
	arg := func(i int) SVal { return vc.autoDeref(vc.eval(x.Args[i], env), env) }
	switch x.Fn {
	case "len":
		v := arg(0)
		switch v.K {
		case KSlice, KString:
			return mkInt(v.ln())
		case KArr:
			return mkInt(litI(v.T.Underlying().(*types.Array).Len()))
		}
		unsup("len of %v", v.T)
	case "cap":
		return mkInt(arg(0).cp())
	case "obj":
		return mkInt(objOf(arg(0)))
	case "off", "lo":
		return mkInt(arg(0).off())
	case "hi":
		v := arg(0)
		return mkInt(add(v.off(), v.ln()))
	case "mem":
		// mem(x): the byte array of x's object in the current state; mem(x, "key") other memories
		v := arg(0)
		key := "uint8"
		if v.K == KSlice {
			el := v.T.Underlying().(*types.Slice).Elem()
			if _, isSt := el.Underlying().(*types.Struct); !isSt {
				key = typeKey(flatElem(el))
			}
		}
		return SVal{K: KArr, S: sel(vc.memGet(env.mem, key, SInt), objOf(v))}
	case "fmem":
		// fmem(x, Field): the array holding field Field of x's element objects
		v := arg(0)
		id, ok := x.Args[1].(*EIdent)
		if !ok || v.K != KSlice {
			unsup("fmem(slice, Field)")
		}
		el := v.T.Underlying().(*types.Slice).Elem()
		return SVal{K: KArr, S: sel(vc.memGet(env.mem, typeKey(el)+"."+id.Name, SInt), v.obj())}
	case "valid":
		v := arg(0)
		return boolV(vc.typeFacts(v))
	case "within":
		// within(x, b): x is nil/empty-or a view inside b's view
		a, b := arg(0), arg(1)
		return boolV(or(eq(a.ln(), "0"), and(eq(a.obj(), b.obj()), le(b.off(), a.off()), le(add(a.off(), a.ln()), add(b.off(), b.ln())))))
	case "fresh":
		v := arg(0)
		return boolV(le("$A0", objOf(v)))
	case "has":
		// has(m, k): key k is present in map m
		m := arg(0)
		MT, ok := m.T.Underlying().(*types.Map)
		if !ok {
			unsup("has(m, k): m is not a map")
		}
		return boolV(vc.mapHas(env.mem, m, MT, arg(1)))
	case "mget":
		// mget(m, k): the value stored under key k (the zero value when absent); k may be a string
		m := arg(0)
		MT, ok := m.T.Underlying().(*types.Map)
		if !ok {
			unsup("mget(m, k): m is not a map")
		}
		return vc.mapGet(env.mem, m, MT, arg(1))
	case "blen":
		// ghost: number of bytes in a buffer.Buffer
		vc.keyType["buffer.len"] = types.Typ[types.Int]
		return mkInt(vc.leafLoad(env.mem, "buffer.len", SInt, objOf(arg(0)), "0"))
	case "bobj":
		// ghost: the object holding a buffer.Buffer's bytes (its bytes start at offset 0)
		return mkInt(vc.leafLoad(env.mem, "buffer.obj", SInt, objOf(arg(0)), "0"))
	case "bytesOf":
		// the byte array of object id o in the current state
		return SVal{K: KArr, S: sel(vc.memGet(env.mem, "uint8", SInt), arg(0).S)}
	case "ghost":
		// ghost(key, x): ghost cell of object x under a named key (Int-valued)
		id, ok := x.Args[0].(*EIdent)
		if !ok {
			unsup("ghost(key, x)")
		}
		return mkInt(vc.leafLoad(env.mem, "ghost."+id.Name, SInt, objOf(arg(1)), "0"))
	case "cast":
		// cast(x, T): the pointer *T (T a named type of the package under verification) to object x
		T := vc.namedType(x.Args[1])
		p := ptrV(types.NewPointer(T), objOf(arg(0)), "0")
		p.Key = ptrKeyFor(T)
		return p
	case "isptr":
		// isptr(x, T): interface value x is non-nil and its dynamic type is *T
		T := vc.namedType(x.Args[1])
		v := arg(0)
		return boolV(and(not(eq(v.S, "0")), eq(sx(vc.typeofFn(), v.S), litI(int64(vc.eng.typeID(types.NewPointer(T)))))))
	case "sfun":
		// sfun(name, s): an uninterpreted string-valued function of the CONTENT of string s
		id, ok := x.Args[0].(*EIdent)
		if !ok {
			unsup("sfun(name, s)")
		}
		sv := arg(1)
		if sv.K != KString {
			unsup("sfun: argument is not a string")
		}
		fo, fl := "sf_"+id.Name+"_o", "sf_"+id.Name+"_l"
		if !vc.declared[fo] {
			vc.declared[fo] = true
			vc.emit(fmt.Sprintf("(declare-fun %s (Int Int) Int)\n(declare-fun %s (Int Int) Int)", fo, fl))
			vc.emit(fmt.Sprintf("(assert (forall ((k Int) (l Int)) (! (and (>= (%s k l) 0) (> (%s k l) 0)) :pattern ((%s k l)))))", fl, fo, fo))
		}
		vc.stridDecl()
		key := ite(eq(sv.ln(), "0"), "0", sx("strid", sv.obj(), sv.off(), sv.ln()))
		return stringV(types.Typ[types.String], sx(fo, key, sv.ln()), "0", sx(fl, key, sv.ln()))
	case "ifun":
		// ifun(name, s): an uninterpreted integer-valued function of the CONTENT of string s
		id, ok := x.Args[0].(*EIdent)
		if !ok {
			unsup("ifun(name, s)")
		}
		sv := arg(1)
		if sv.K != KString {
			unsup("ifun: argument is not a string")
		}
		fi := "if_" + id.Name
		if !vc.declared[fi] {
			vc.declared[fi] = true
			vc.emit(fmt.Sprintf("(declare-fun %s (Int Int) Int)", fi))
		}
		vc.stridDecl()
		return mkInt(sx(fi, ite(eq(sv.ln(), "0"), "0", sx("strid", sv.obj(), sv.off(), sv.ln())), sv.ln()))
	case "istype":
		// istype(x, T): interface value x is non-nil and its dynamic type is the named type T
		T := vc.namedType(x.Args[1])
		v := arg(0)
		return boolV(and(not(eq(v.S, "0")), eq(sx(vc.typeofFn(), v.S), litI(int64(vc.eng.typeID(T))))))
	case "unboxv":
		// unboxv(x, T): the value of named type T held by interface value x
		return vc.unboxVal(arg(0), vc.namedType(x.Args[1]))
	case "unbox":
		// unbox(x, T): the *T held by interface value x (T a named type of the package under verification)
		return vc.unboxVal(arg(0), types.NewPointer(vc.namedType(x.Args[1])))
	case "gstr":
		// gstr(key, x): a ghost STRING of object x: three ghost cells (view object, offset, length)
		id, ok := x.Args[0].(*EIdent)
		if !ok {
			unsup("gstr(key, x)")
		}
		k := objOf(arg(1))
		return stringV(types.Typ[types.String],
			vc.leafLoad(env.mem, "ghost."+id.Name+".o", SInt, k, "0"),
			vc.leafLoad(env.mem, "ghost."+id.Name+".f", SInt, k, "0"),
			vc.leafLoad(env.mem, "ghost."+id.Name+".l", SInt, k, "0"))
	case "ite":
		c := arg(0)
		return vc.iteVal(c.S, arg(1), arg(2))
	case "int":
		return arg(0)
	case "typeis":
		// typeis(x, N): dynamic type id
		unsup("typeis")
	}
	// package-level abbreviation (define)
	if mac, ok := vc.eng.contracts.Macros[x.Fn]; ok {
		if len(mac.Params) != len(x.Args) {
			unsup("define %s takes %d arguments, got %d", mac.Name, len(mac.Params), len(x.Args))
		}
		c := env.child()
		for i, p := range mac.Params {
			c.vars[p] = arg(i)
		}
		if c.old != nil {
			// inside old(...) the parameters keep their values; memory is the old one
			o := c.old.child()
			for i, p := range mac.Params {
				o.vars[p] = c.vars[p]
				_ = i
			}
			c.old = o
		}
		return vc.eval(mac.E, c)
	}
	// spec function from the prelude
	sf, ok := vc.eng.specFuncs[x.Fn]
	if !ok {
		unsup("contract: unknown function %q", x.Fn)
	}
	if len(sf.params) != len(x.Args) {
		unsup("spec function %s takes %d arguments, got %d", x.Fn, len(sf.params), len(x.Args))
	}
	var as []string
	for i := range x.Args {
		v := arg(i)
		switch v.K {
		case KInt, KBool, KArr, KRef, KFloat:
			as = append(as, v.S)
		default:
			unsup("argument %d of spec function %s is not scalar", i, x.Fn)
		}
	}
	t := "(" + x.Fn + " " + strings.Join(as, " ") + ")"
	if len(as) == 0 {
		t = x.Fn
	}
	switch sf.result {
	case "Bool":
		return boolV(t)
	case "Int":
		return mkInt(t)
	case "(Array Int Int)":
		return SVal{K: KArr, S: t}
	}
	return SVal{K: KFloat, S: t}
}
