#!/bin/bash
# usage: confirm_round3.sh <group> <property> <name> <demo package dir, e.g. ./internal/types/> "<needs>"
# Applies /tmp/${SEEDROOT:-seed3}/<group>/out_<property>.diff and the demo in that scratch worktree and runs confirm_seeded.sh.
set -u
g=$1; prop=$2; name=$3; pkg=$4; needs=$5
wt=/tmp/${SEEDROOT:-seed3}/$g
cd $wt || exit 2
git checkout -q -- . ; git apply out_$prop.diff || exit 2
demo=${pkg#./}zz_demo_${prop}_test.go
cp out_${prop}_demo_test.go.txt $demo
/verif/tools/confirm_seeded.sh "$name" "$prop" "$wt" "$demo" "$pkg" "TestZZDemo$prop" "$needs"
rm -f $demo; git checkout -q -- .
sed -i 's/independent sub-agent given only/independent sub-agent (round ${SEEDROUND:-3}) given only/' /verif/seeded/$name/meta.json 2>/dev/null
