package main

import (
	"bufio"
	"encoding/json"
	"flag"
	"fmt"
	"os"
	"path/filepath"
	"sort"
	"strconv"
	"strings"
	"sync"
	"time"
)

type finding struct {
	prop  string
	name  string
	text  string
	fixed bool
}

func loadFindings(path string) []finding {
	var out []finding
	fh, err := os.Open(path)
	if err != nil {
		return nil
	}
	defer fh.Close()
	sc := bufio.NewScanner(fh)
	for sc.Scan() {
		l := strings.TrimSpace(sc.Text())
		if l == "" || strings.HasPrefix(l, "#") {
			continue
		}
		var f finding
		switch {
		case strings.HasPrefix(l, "finding:"):
			l = strings.TrimSpace(l[len("finding:"):])
		case strings.HasPrefix(l, "fixed:"):
			f.fixed = true
			l = strings.TrimSpace(l[len("fixed:"):])
		default:
			continue
		}
		parts := strings.Fields(l)
		if len(parts) < 2 || !strings.HasPrefix(parts[0], "property=") {
			continue
		}
		f.prop = parts[0][len("property="):]
		f.name = parts[1]
		f.text = strings.Join(parts[2:], " ")
		out = append(out, f)
	}
	return out
}

type evidence struct {
	PropertyID  string         `json:"property_id"`
	Tier        string         `json:"tier"`
	Seed        int            `json:"seed"`
	Level       string         `json:"level"`
	Coverage    map[string]any `json:"coverage"`
	Assumptions []string       `json:"assumptions"`
	WallS       float64        `json:"wall_s"`
	Violations  int            `json:"violations"`
}

func cmdCheck(args []string) {
	fs := flag.NewFlagSet("check", flag.ExitOnError)
	repo := fs.String("repo", envOr("VERIF_REPO", "/repo"), "")
	verif := fs.String("verif", envOr("VERIF_DIR", "/verif"), "")
	prop := fs.String("property", "", "")
	tier := fs.String("tier", envOr("VERIF_TIER", "quick"), "")
	level := fs.String("level", "proof", "")
	noEvidence := fs.Bool("no-evidence", false, "")
	fs.Parse(args)
	if *prop == "" {
		fatal("check: --property required")
	}
	seed, _ := strconv.Atoi(envOr("VERIF_SEED", "0"))
	t0 := time.Now()
	e := setup(*repo, *verif)
	// VERIF_OUT_SUFFIX: scratch-directory suffix, so that the seeded corpus can run several checks of
	// the same property side by side (each against its own scratch worktree)
	cfg := solveCfg{outDir: filepath.Join(*verif, "out", *prop+"-"+*tier+os.Getenv("VERIF_OUT_SUFFIX")), timeoutSec: 10, par: 16}
	if *tier == "thorough" {
		cfg.timeoutSec = 120
		cfg.thorough = true
	}
	os.RemoveAll(cfg.outDir)
	os.MkdirAll(cfg.outDir, 0o755)

	// roots: contracts with a clause or safety tag for this property
	done := map[string]bool{}
	var work []string
	var deferred []string // functions marked `tier thorough`: not verified by the quick command
	var deferredMu sync.Mutex
	deferredSeen := map[string]bool{}
	for k, c := range e.contracts.M {
		if c.IsIface || c.Trusted {
			continue
		}
		if contractMentions(c, *prop) {
			if c.ThoroughOnly && !cfg.thorough {
				deferred = append(deferred, shortFuncName(k))
				continue
			}
			work = append(work, k)
		}
	}
	sort.Strings(work)
	var all []*FuncResult
	isRoot := map[string]bool{}
	for _, k := range work {
		isRoot[k] = true
	}
	for len(work) > 0 {
		var batch []string
		for _, k := range work {
			if !done[k] {
				done[k] = true
				batch = append(batch, k)
			}
		}
		work = nil
		if len(batch) == 0 {
			break
		}
		res := e.verifyAll(batch, *prop, cfg, func(o *Oblig, c *Contract) bool {
			if !relevant(o, c, *prop) {
				return false
			}
			// a clause tagged `thorough` (ensures[C01,thorough]) is a long proof: the quick command
			// skips its obligations (and says so); call sites assume it either way, as they assume
			// every clause that is proved by another run
			if !cfg.thorough && hasPlainTag(o.Tags, "thorough") && !o.Cover {
				n := o.Name
				if i := strings.Index(n, "/r"); i > 0 {
					n = n[:i]
				}
				deferredMu.Lock()
				if !deferredSeen[n] {
					deferredSeen[n] = true
					deferred = append(deferred, "clause "+n)
				}
				deferredMu.Unlock()
				return false
			}
			return true
		})
		all = append(all, res...)
		for _, fr := range res {
			for _, u := range fr.Used {
				c := e.contracts.M[u]
				if c != nil && !c.IsIface && !c.Trusted && !done[u] {
					work = append(work, u)
				}
			}
		}
		sort.Strings(work)
	}

	findings := loadFindings(filepath.Join(*verif, "known_findings.txt"))
	isKnown := func(name string) (finding, bool) {
		if i := strings.Index(name, "/r"); i > 0 {
			name = name[:i] // per-return-site obligations share the clause's name
		}
		for _, f := range findings {
			if !f.fixed && f.prop == *prop && f.name == name {
				return f, true
			}
		}
		return finding{}, false
	}

	// classify
	var nObl, nDis, nCover, nCanary int
	var violations []*Oblig
	var engineErrs []string
	var assumptions []string
	seenAssume := map[string]bool{}
	assume := func(s string) {
		if !seenAssume[s] {
			seenAssume[s] = true
			assumptions = append(assumptions, s)
		}
	}
	var samples []any
	var funcs []string
	var outOfSubset []string
	solverSecs := map[string]float64{}
	solverCount := map[string]int{}
	knownPrinted := map[string]bool{}
	for _, fr := range all {
		switch {
		case fr.Trusted:
			continue
		case fr.OutOfSub != "":
			outOfSubset = append(outOfSubset, fr.Short+": "+fr.OutOfSub)
			continue
		case fr.Err != "":
			engineErrs = append(engineErrs, fr.Short+": "+fr.Err)
			continue
		}
		funcs = append(funcs, fr.Short)
		for _, n := range fr.Notes {
			assume(fr.Short + ": " + n)
		}
		for _, c := range fr.Cross {
			assume("clause assumed at call sites here and verified by the check of the property it is tagged with: " + c)
		}
		for _, u := range fr.Used {
			if c := e.contracts.M[u]; c != nil && (c.Trusted || c.IsIface) {
				assume("assumed contract (body not verified): " + shortFuncName(u))
			}
		}
		for _, o := range fr.Selected {
			switch {
			case o.Cover:
				nCover++
				if o.Status == "discharged" {
					engineErrs = append(engineErrs, "vacuous: "+o.Name+" (precondition or path condition unsatisfiable)")
				}
				continue
			case o.Canary:
				nCanary++
				if o.Status == "discharged" {
					engineErrs = append(engineErrs, "canary discharged: "+o.Name+" (a deliberately false clause was proved)")
				}
				continue
			}
			nObl++
			if o.Status == "discharged" {
				if cfg.thorough && strings.HasPrefix(o.Confirmed, "DISAGREE") {
					engineErrs = append(engineErrs, "solver disagreement on "+o.Name+": "+o.Confirmed)
				}
				nDis++
				solverSecs[o.Solver] += o.Seconds
				solverCount[o.Solver]++
				if len(samples) < 6 && (o.Kind == "ensures" || o.Kind == "slice" || o.Kind == "unsafe-read" || o.Kind == "inv-preserved") {
					samples = append(samples, map[string]any{"obligation": o.Name, "kind": o.Kind, "clause": o.Desc, "verdict": "unsat (discharged)", "solver": o.Solver, "confirmed_by": o.Confirmed})
				}
				continue
			}
			if f, ok := isKnown(o.Name); ok {
				if !knownPrinted[o.Name] {
					knownPrinted[o.Name] = true
					fmt.Printf("KNOWN-FINDING: property=%s %s %s\n", *prop, o.Name, f.text)
				}
				continue
			}
			violations = append(violations, o)
		}
	}
	sort.Strings(funcs)
	sort.Strings(deferred)
	for _, d := range deferred {
		assume("NOT verified by this (quick) run - long proof, discharged by the thorough command only: " + d)
	}

	// report
	exit := 0
	replayDir := filepath.Join(*verif, "out", "replay", *prop+os.Getenv("VERIF_OUT_SUFFIX"))
	os.MkdirAll(replayDir, 0o755)
	for _, o := range violations {
		rp := e.replay(o, all, replayDir, cfg)
		suffix := ""
		if !rp.Confirmed {
			suffix = " no-failing-input-found"
		}
		fmt.Printf("VIOLATION property=%s replay=%s obligation=%s status=%s%s\n", *prop, rp.Path, o.Name, o.Status, suffix)
		exit = 1
	}
	if len(outOfSubset) > 0 || len(engineErrs) > 0 {
		for _, s := range outOfSubset {
			fmt.Printf("UNDECIDED (outside the verifier's subset, nothing is claimed for it): %s\n", s)
		}
		for _, s := range engineErrs {
			fmt.Printf("ENGINE-ERROR: %s\n", s)
		}
		if exit == 0 {
			exit = 2
		}
	}
	if nObl == 0 && exit == 0 {
		fmt.Println("ENGINE-ERROR: zero obligations generated")
		exit = 2
	}

	wall := time.Since(t0).Seconds()
	be := map[string]any{}
	for k, v := range solverCount {
		be[k] = map[string]any{"discharged": v, "solver_seconds": round2(solverSecs[k])}
	}
	assume("go/ssa (x/tools v0.50.0) is a faithful IR of the compiled code; SMT solvers' unsat answers are correct")
	assume("64-bit platform (int = 64 bits); distinct allocations never overlap; a slice header passed by a caller is valid")
	assume("concurrency: every obligation is about a single call executing alone")
	if e.esc != nil && *prop == "C17" {
		assume("allocation sites are taken from the Go compiler's escape analysis (`go build -tags=verif -gcflags=-m` over the working tree, run by this check): " + e.esc.err + "; a zero-size object is not an allocation; a call contributes through its callee's noalloc clause only; an append allocates iff the capacity does not suffice; map updates, go statements and channel creation always allocate")
	}
	if len(e.overlaySrc) > 0 {
		assume("grammar actions: the arms of `switch yynt` in yyParserImpl.Parse (grammar.go) were copied mechanically, on this run, into functions yyAct_<lhs>_<k> (govc/yyextract.go: the yyDollar slice statement dropped, `return X` rewritten to `return yyVAL, X, true`); the LALR driver (which production is reduced when, the value stack, error recovery) is NOT covered")
	}
	sort.Strings(assumptions)
	if len(samples) == 0 {
		samples = append(samples, map[string]any{"note": "no ensures/slice obligations sampled"})
	}
	ev := evidence{PropertyID: *prop, Tier: *tier, Seed: seed, Level: *level, WallS: round2(wall), Violations: len(violations), Assumptions: assumptions}
	ev.Coverage = map[string]any{
		"obligations":          nObl,
		"discharged":           nDis,
		"checker_cmd":          fmt.Sprintf("/verif/bin/govc check --property %s --tier %s", *prop, *tier),
		"trusted_base":         []string{"govc VC generator (/verif/govc)", "go/ssa x/tools v0.50.0", "z3 5.1.0 / z3 4.8.12 / cvc5 1.0.3", "spec functions /verif/spec/*.smt2", "assumed contracts listed under assumptions"},
		"functions_under_contract": funcs,
		"functions":            len(funcs),
		"backends":             be,
		"covers_checked":       nCover,
		"canaries_refuted":     nCanary,
		"out_of_subset":        outOfSubset,
		"samples":              samples,
		"known_findings":       len(knownPrinted),
		"explanation":          "every obligation generated from /repo's current source for the functions listed was sent to the SMT portfolio; discharged = unsat",
	}
	if *level != "proof" {
		ev.Coverage["evaluations"] = nObl
		ev.Coverage["distinct_nontrivial"] = nDis
		ev.Coverage["rule"] = "one evaluation = one proof obligation; distinct by obligation name; non-trivial = not syntactically true"
	}
	if !*noEvidence {
		os.MkdirAll(filepath.Join(*verif, "evidence"), 0o755)
		b, _ := json.MarshalIndent(ev, "", " ")
		os.WriteFile(filepath.Join(*verif, "evidence", *prop+".json"), b, 0o644)
	}
	fmt.Printf("property %s tier %s: %d functions, %d obligations, %d discharged, %d covers, %d canaries, %d violations, %.1fs\n",
		*prop, *tier, len(funcs), nObl, nDis, nCover, nCanary, len(violations), wall)
	os.Exit(exit)
}

func round2(f float64) float64 { return float64(int(f*100+0.5)) / 100 }

func contractMentions(c *Contract, p string) bool {
	if hasPosTag(c.Safety, p) {
		return true
	}
	for _, l := range [][]*Clause{c.Ensures, c.Canaries, c.Invs, c.Asserts, c.NoAlloc} {
		for _, cl := range l {
			if hasPosTag(cl.Tags, p) {
				return true
			}
		}
	}
	return false
}
