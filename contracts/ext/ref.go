//go:build verif

// ASSUMED contracts of baselibrary/ref and alloc (interfaces / pooled buffers; no bodies verified).
package ext

//@ package github.com/basecomplextech/baselibrary/ref

//@ iface R.Release
//@ iface R.Retain
//@ iface R.Unwrap
//@ iface R.Refcount

//@ package github.com/basecomplextech/baselibrary/alloc

//@ func AcquireBuffer
//@   trusted
//@   ensures result != nil && blen(result) == 0

//@ package time
//@ func Since
//@   trusted

//@ package github.com/basecomplextech/baselibrary/alloc/internal/buffer
//@ iface Buffer.Free
//@ iface Buffer.Rem
