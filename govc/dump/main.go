package main

import (
	"os"
	"strings"

	"golang.org/x/tools/go/packages"
	"golang.org/x/tools/go/ssa"
	"golang.org/x/tools/go/ssa/ssautil"
)

func main() {
	cfg := &packages.Config{Mode: packages.LoadAllSyntax, Dir: "/repo"}
	pkgs, err := packages.Load(cfg, os.Args[1])
	if err != nil {
		panic(err)
	}
	prog, _ := ssautil.AllPackages(pkgs, ssa.GlobalDebug|ssa.InstantiateGenerics)
	prog.Build()
	for fn := range ssautil.AllFunctions(prog) {
		for _, name := range os.Args[2:] {
			if strings.HasSuffix(fn.String(), name) {
				fn.WriteTo(os.Stdout)
			}
		}
	}
}
