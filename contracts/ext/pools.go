//go:build verif

// ASSUMED contracts of baselibrary/pools (sync.Pool wrapper): New returns a non-nil object that is
// either freshly constructed or was Put before; Put takes ownership. What the object contains
// is NOT assumed (a recycled object may hold anything its previous user left in it).
package ext

//@ package github.com/basecomplextech/baselibrary/pools

//@ iface Pool.New
//@   modifies pools.*
//@   ensures result != nil

//@ iface Pool.Put
//@   modifies pools.*
