package main

import (
	"fmt"
	"go/token"
	"go/types"
	"math"
	"math/big"
	"strings"

	"golang.org/x/tools/go/ssa"
)

func fpLit32(f float32) string {
	b := math.Float32bits(f)
	return fmt.Sprintf("(fp #b%01b #b%08b #b%023b)", b>>31, (b>>23)&0xff, b&0x7fffff)
}
func fpLit64(f float64) string {
	b := math.Float64bits(f)
	return fmt.Sprintf("(fp #b%01b #b%011b #b%052b)", b>>63, (b>>52)&0x7ff, b&0xfffffffffffff)
}

func (vc *VC) execInstr(ins ssa.Instruction) {
	R := vc.R[vc.cur]
	switch x := ins.(type) {
	case *ssa.DebugRef:
		if len(vc.inl) == 0 {
			vc.assertsAfter(x)
		}
	case *ssa.Alloc:
		vc.localAlloc = !x.Heap
		vc.vals[x] = vc.alloc(x.Type().(*types.Pointer).Elem(), x.Type(), x.Comment)
		vc.localAlloc = false
	case *ssa.UnOp:
		vc.vals[x] = vc.unop(x)
	case *ssa.BinOp:
		vc.vals[x] = vc.nameVal(vc.binop(x), "b")
	case *ssa.Store:
		p := vc.val(x.Addr)
		vc.derefCheck(p, x.Pos(), R)
		T := x.Addr.Type().Underlying().(*types.Pointer).Elem()
		vc.store(p, T, vc.coerce(vc.val(x.Val), T), vc.curMem)
	case *ssa.IndexAddr:
		vc.vals[x] = vc.indexAddr(x)
	case *ssa.Index:
		vc.vals[x] = vc.index(x)
	case *ssa.Lookup:
		vc.vals[x] = vc.mapLookup(x)
	case *ssa.MapUpdate:
		vc.mapUpdate(x)
	case *ssa.MakeMap:
		vc.vals[x] = vc.makeMap(x)
	case *ssa.FieldAddr:
		p := vc.val(x.X)
		vc.nilCheck(p, x.Pos(), R)
		ST := x.X.Type().Underlying().(*types.Pointer).Elem()
		vc.vals[x] = vc.fieldPtr(p, ST, x.Field)
	case *ssa.Field:
		vc.vals[x] = vc.val(x.X).F[x.Field]
	case *ssa.Slice:
		vc.vals[x] = vc.slice(x)
	case *ssa.Extract:
		vc.vals[x] = vc.val(x.Tuple).F[x.Index]
	case *ssa.Convert:
		vc.vals[x] = vc.convert(x)
	case *ssa.ChangeType:
		v := vc.val(x.X)
		v.T = x.Type()
		vc.vals[x] = v
	case *ssa.MakeInterface:
		r := vc.fresh(x.Type(), "mkif")
		vc.fact("true", lt("0", r.S))
		vc.fact("true", eq(sx(vc.typeofFn(), r.S), litI(int64(vc.eng.typeID(x.X.Type())))))
		// remember the boxed payload for unboxing through a type assertion
		vc.boxPayload(r, x.X.Type(), vc.val(x.X))
		vc.vals[x] = r
	case *ssa.ChangeInterface:
		v := vc.val(x.X)
		v.T = x.Type()
		vc.vals[x] = v
	case *ssa.TypeAssert:
		vc.vals[x] = vc.typeAssert(x)
	case *ssa.MakeSlice:
		ln := vc.val(x.Len).S
		cp := vc.val(x.Cap).S
		vc.oblige("slice", R, and(le("0", ln), le(ln, cp)), x.Pos(), "make: len out of range")
		obj := vc.newObj()
		el := x.Type().Underlying().(*types.Slice).Elem()
		vc.zeroObject(obj, el)
		vc.vals[x] = sliceV(x.Type(), obj, "0", ln, cp)
	case *ssa.MakeChan:
		r := vc.fresh(x.Type(), "mk")
		vc.fact("true", lt("0", r.S))
		vc.vals[x] = r
	case *ssa.MakeClosure:
		r := vc.fresh(x.Type(), "closure")
		vc.fact("true", lt("0", r.S))
		vc.vals[x] = r
	case *ssa.Call:
		vc.vals[x] = vc.call(x.Common(), x, x.Pos())
	case *ssa.Defer:
		vc.defers = append(vc.defers, x)
	case *ssa.RunDefers:
		for i := len(vc.defers) - 1; i >= 0; i-- {
			d := vc.defers[i]
			if !d.Block().Dominates(vc.cur) {
				// conditional defer: the call runs iff control passed through the defer statement.
				// Executed under that narrower guard; its effects are merged with "not executed".
				if vc.R[d.Block()] == "" {
					continue // defer statement unreachable
				}
				saveR := vc.R[vc.cur]
				g := vc.def("Rdefer", SBool, and(saveR, vc.R[d.Block()]))
				before := vc.curMem
				vc.curMem = before.clone()
				vc.R[vc.cur] = g
				vc.runDeferred(d)
				vc.R[vc.cur] = saveR
				after := vc.curMem
				vc.curMem = vc.mergeMems([]string{vc.R[d.Block()], not(vc.R[d.Block()])}, []*Mem{after, before})
				continue
			}
			vc.runDeferred(d)
		}
	case *ssa.Return:
		var rs []SVal
		sig := vc.curFn().Signature.Results()
		for i, r := range x.Results {
			rs = append(rs, vc.coerce(vc.val(r), sig.At(i).Type()))
		}
		vc.retR = append(vc.retR, R)
		vc.retVals = append(vc.retVals, rs)
		vc.retMems = append(vc.retMems, vc.curMem)
		vc.retNalloc = append(vc.retNalloc, vc.nalloc)
		vc.retNfail = append(vc.retNfail, vc.nfail)
		vc.retBlks = append(vc.retBlks, vc.cur)
	case *ssa.If, *ssa.Jump:
		// handled by edge conditions
	case *ssa.Select:
		// a nondeterministic choice among the ready cases; received values are arbitrary
		vc.assertsAtSelect(x)
		vc.note("select: modelled as a nondeterministic choice with arbitrary received values (no channel semantics)")
		r := vc.fresh(x.Type(), "sel")
		lo := "0"
		if !x.Blocking {
			lo = "(- 1)"
		}
		vc.fact("true", and(le(lo, r.F[0].S), lt(r.F[0].S, litI(int64(len(x.States))))))
		vc.vals[x] = r
	case *ssa.Send:
		vc.note("channel send: no effect modelled")
	case *ssa.Go:
		vc.note("go statement: the new goroutine is not modelled (every obligation is about one call executing alone)")
	case *ssa.Panic:
		vc.oblige("panic", R, "false", x.Pos(), "explicit panic reachable")
	case *ssa.Phi:
	default:
		unsup("instruction %T (%s)", ins, ins)
	}
}

// allocation ---------------------------------------------------------------

// newObj returns the id of a freshly allocated object: a new constant above the current
// allocation bound (vc.bound: every object that exists at this point has a smaller id -
// parameters, globals, earlier allocations, and whatever callees allocated so far).
func (vc *VC) newObj() string {
	vc.allocN++
	if vc.localAlloc {
		// A variable that does not escape (go/ssa: Alloc with Heap == false) is never referenced
		// from memory or by a callee. It gets a NEGATIVE id: every object id stored in a memory,
		// passed in or returned by a call is >= 0, so such a local cannot alias any of them.
		obj := lit(big.NewInt(int64(-vc.allocN)))
		for _, l := range vc.enclosingLoops(vc.cur) {
			l.allocs[obj] = true
		}
		return obj
	}
	obj := fmt.Sprintf("$newobj%d", vc.allocN)
	vc.declare(obj, SInt)
	vc.fact("true", le(vc.curBound(), obj))
	vc.setBound(add(obj, "1"))
	for _, l := range vc.enclosingLoops(vc.cur) {
		l.allocs[obj] = true
	}
	return obj
}

func (vc *VC) curBound() string {
	if vc.bound == "" {
		return "$A0"
	}
	return vc.bound
}

func (vc *VC) setBound(b string) { vc.bound = b }

// callBound: a call may have allocated objects; afterwards the bound is some larger value.
func (vc *VC) callBound() string {
	vc.allocN++
	b := vc.declare(fmt.Sprintf("$bound%d", vc.allocN), SInt)
	vc.fact("true", le(vc.curBound(), b))
	vc.setBound(b)
	return b
}

func (vc *VC) alloc(elem types.Type, PT types.Type, hint string) SVal {
	obj := vc.newObj()
	p := ptrV(PT, obj, "0")
	p.Key = ptrKeyFor(elem)
	if _, ok := elem.Underlying().(*types.Array); ok {
		p.Key = typeKey(flatElem(elem))
		p.Lo, p.Hi = "0", litI(flatLen(elem))
		// zero the whole object
		so, ok := scalarSort(flatElem(elem))
		if !ok || so != SInt {
			// arrays of interfaces ([]any varargs) and similar: zero via element type
			vc.zeroObject(obj, flatElem(elem))
			return p
		}
		M := vc.memGet(vc.curMem, p.Key, SInt)
		vc.curMem.m[p.Key] = vc.def("M_"+p.Key, memSort(SInt), sto(M, obj, "((as const (Array Int Int)) 0)"))
		return p
	}
	vc.store(p, elem, vc.zero(elem), vc.curMem)
	return p
}

// zeroObject makes every cell of a freshly allocated object hold the zero value of elem.
func (vc *VC) zeroObject(obj string, elem types.Type) {
	var walk func(T types.Type, keyBase string)
	walk = func(T types.Type, keyBase string) {
		switch u := T.Underlying().(type) {
		case *types.Struct:
			for i := 0; i < u.NumFields(); i++ {
				f := u.Field(i)
				switch f.Type().Underlying().(type) {
				case *types.Struct, *types.Array:
					unsup("make of slice whose element has nested struct/array field")
				}
				walkLeaves(vc, f.Type(), typeKey(T)+"."+f.Name(), obj)
			}
		default:
			walkLeaves(vc, T, keyBase, obj)
		}
	}
	walk(elem, typeKey(elem))
}

func walkLeaves(vc *VC, T types.Type, key string, obj string) {
	vc.build(T, "", func(path string, sort Sort, lt types.Type) string {
		k := key + path
		M := vc.memGet(vc.curMem, k, sort)
		var z string
		switch sort {
		case SInt:
			z = "((as const (Array Int Int)) 0)"
		case SBool:
			z = "((as const (Array Int Bool)) false)"
		default:
			unsup("zeroing memory of sort %s", sort)
		}
		vc.checkLoopStore(k, obj)
		vc.curMem.m[k] = vc.def("M_"+k, memSort(sort), sto(M, obj, z))
		return ""
	})
}

// checks -------------------------------------------------------------------

func (vc *VC) nilCheck(p SVal, pos token.Pos, R string) {
	if p.K != KPtr {
		return
	}
	if isAllocObj(p.obj()) || len(p.obj()) > 4 && p.obj()[:5] == "(emb_" || len(p.obj()) > 2 && p.obj()[:3] == "$G_" {
		return
	}
	vc.oblige("nil", R, not(eq(p.obj(), "0")), pos, "nil pointer dereference")
}

func isAllocObj(s string) bool { return strings.HasPrefix(s, "$newobj") || strings.HasPrefix(s, "(- ") }

func (vc *VC) derefCheck(p SVal, pos token.Pos, R string) {
	if p.K != KPtr {
		unsup("dereference of non-pointer")
	}
	if p.Unsafe {
		if p.Lo == "" {
			unsup("unsafe pointer without provenance")
		}
		vc.oblige("unsafe-read", R, and(le(p.Lo, p.off()), lt(p.off(), p.Hi)), pos, "unsafe pointer access outside its object")
		return
	}
	vc.nilCheck(p, pos, R)
}

// unop -----------------------------------------------------------------------

func (vc *VC) unop(x *ssa.UnOp) SVal {
	R := vc.R[vc.cur]
	v := vc.val(x.X)
	switch x.Op {
	case token.MUL:
		vc.derefCheck(v, x.Pos(), R)
		r := vc.load(v, x.Type(), vc.curMem)
		if g, ok := x.X.(*ssa.Global); ok && r.K == KRef && vc.eng.initOnlyGlobal(g) {
			// package-level variable assigned only by the package initialiser
			vc.fact("true", lt("0", r.S))
			vc.note("package-level variable %s is assigned only during package initialisation and is assumed non-nil", g.Name())
		}
		return r
	case token.NOT:
		return boolV(not(v.S))
	case token.SUB:
		if v.K == KFloat {
			return SVal{K: KFloat, T: x.Type(), S: sx("fp.neg", v.S)}
		}
		r := sub("0", v.S)
		return vc.arith(r, x.Type(), x.Pos())
	case token.XOR:
		lo, hi, ok := intRange(x.Type())
		if !ok {
			unsup("^ on %v", x.Type())
		}
		if lo.Sign() == 0 {
			return intV(sub(lit(hi), v.S), x.Type())
		}
		return intV(sub(sub("0", v.S), "1"), x.Type())
	case token.ARROW:
		vc.note("channel receive: the received value is arbitrary (no channel semantics)")
		return vc.fresh(x.Type(), "recv")
	}
	unsup("unary op %v", x.Op)
	return SVal{}
}

// arith wraps or obliges depending on signedness.
func (vc *VC) arith(r string, T types.Type, pos token.Pos) SVal {
	b, ok := T.Underlying().(*types.Basic)
	if !ok {
		unsup("arithmetic on %v", T)
	}
	if isUnsigned(b) || (vc.con != nil && vc.con.Wrapping) {
		return intV(wrapTo(r, T), T)
	}
	if _, isl := litVal(r); !isl {
		r = vc.def("ar", SInt, r)
		vc.oblige("overflow", vc.R[vc.cur], rangeFact(r, T), pos, "signed arithmetic overflow (Int-mode soundness side condition)")
	}
	return intV(r, T)
}

// bit-level facts about SSA values, used to turn a|b into a+b
func bitWidth(v ssa.Value) uint {
	switch x := v.(type) {
	case *ssa.Convert:
		w := bitWidth(x.X)
		if b, ok := x.Type().Underlying().(*types.Basic); ok {
			if tw := basicBits(b); tw != 0 && tw < w {
				return tw
			}
		}
		return w
	case *ssa.ChangeType:
		return bitWidth(x.X)
	case *ssa.BinOp:
		switch x.Op {
		case token.SHL:
			if c, ok := x.Y.(*ssa.Const); ok && c.Value != nil {
				if n, ok := constInt(c); ok {
					return bitWidth(x.X) + uint(n)
				}
			}
		case token.OR:
			a, b := bitWidth(x.X), bitWidth(x.Y)
			if a > b {
				return a
			}
			return b
		case token.SHR:
			if c, ok := x.Y.(*ssa.Const); ok && c.Value != nil {
				if n, ok := constInt(c); ok {
					w := bitWidth(x.X)
					if uint(n) >= w {
						return 0
					}
					return w - uint(n)
				}
			}
		}
	case *ssa.Const:
		if n, ok := constInt(x); ok && n >= 0 {
			return uint(big.NewInt(n).BitLen())
		}
	}
	if b, ok := v.Type().Underlying().(*types.Basic); ok && isUnsigned(b) {
		return basicBits(b)
	}
	return 64
}

func lowZeros(v ssa.Value) uint {
	switch x := v.(type) {
	case *ssa.Convert:
		return lowZeros(x.X)
	case *ssa.ChangeType:
		return lowZeros(x.X)
	case *ssa.BinOp:
		switch x.Op {
		case token.SHL:
			if c, ok := x.Y.(*ssa.Const); ok {
				if n, ok := constInt(c); ok {
					return lowZeros(x.X) + uint(n)
				}
			}
		case token.OR:
			a, b := lowZeros(x.X), lowZeros(x.Y)
			if a < b {
				return a
			}
			return b
		}
	}
	return 0
}

func constInt(c *ssa.Const) (int64, bool) {
	if c.Value == nil {
		return 0, false
	}
	n, ok := new(big.Int).SetString(c.Value.ExactString(), 10)
	if !ok || !n.IsInt64() {
		return 0, false
	}
	return n.Int64(), true
}

func (vc *VC) binop(x *ssa.BinOp) SVal {
	a, b := vc.val(x.X), vc.val(x.Y)
	R := vc.R[vc.cur]
	T := x.Type()
	// comparisons
	switch x.Op {
	case token.EQL, token.NEQ:
		a = vc.coerce(a, x.Y.Type())
		b = vc.coerce(b, x.X.Type())
		e := vc.equal(a, b, x.X.Type())
		if x.Op == token.NEQ {
			e = not(e)
		}
		return boolV(e)
	case token.LSS, token.LEQ, token.GTR, token.GEQ:
		if a.K == KFloat {
			op := map[token.Token]string{token.LSS: "fp.lt", token.LEQ: "fp.leq", token.GTR: "fp.gt", token.GEQ: "fp.geq"}[x.Op]
			return boolV(sx(op, a.S, b.S))
		}
		if a.K != KInt {
			unsup("ordered comparison of %v", x.X.Type())
		}
		op := map[token.Token]string{token.LSS: "<", token.LEQ: "<=", token.GTR: ">", token.GEQ: ">="}[x.Op]
		return boolV(sx(op, a.S, b.S))
	}
	if a.K == KBool {
		switch x.Op {
		case token.AND, token.LAND:
			return boolV(and(a.S, b.S))
		case token.OR, token.LOR:
			return boolV(or(a.S, b.S))
		}
	}
	if a.K == KFloat {
		op := map[token.Token]string{token.ADD: "fp.add", token.SUB: "fp.sub", token.MUL: "fp.mul", token.QUO: "fp.div"}[x.Op]
		if op == "" {
			unsup("float op %v", x.Op)
		}
		return SVal{K: KFloat, T: T, S: sx(op, "RNE", a.S, b.S)}
	}
	if a.K == KString && x.Op == token.ADD {
		r := vc.fresh(T, "concat")
		vc.fact("true", eq(r.ln(), add(a.ln(), b.ln())))
		return r
	}
	if a.K != KInt {
		unsup("binary op %v on %v", x.Op, x.X.Type())
	}
	bt := T.Underlying().(*types.Basic)
	switch x.Op {
	case token.ADD:
		return vc.arith(add(a.S, b.S), T, x.Pos())
	case token.SUB:
		return vc.arith(sub(a.S, b.S), T, x.Pos())
	case token.MUL:
		return vc.arith(mul(a.S, b.S), T, x.Pos())
	case token.QUO, token.REM:
		if v, ok := litVal(b.S); !ok || v.Sign() == 0 {
			vc.oblige("div", R, not(eq(b.S, "0")), x.Pos(), "division by zero")
		}
		var q string
		if isUnsigned(bt) {
			q = sx("div", a.S, b.S)
		} else {
			// truncated division
			absq := sx("div", sx("abs", a.S), sx("abs", b.S))
			q = ite(eq(sx(">=", a.S, "0"), sx(">=", b.S, "0")), absq, sub("0", absq))
			if v, ok := litVal(b.S); ok && v.Sign() > 0 {
				q = ite(sx(">=", a.S, "0"), sx("div", a.S, b.S), sub("0", sx("div", sub("0", a.S), b.S)))
			}
		}
		q = vc.def("q", SInt, q)
		if x.Op == token.QUO {
			// MinInt / -1 overflows
			return vc.arith(q, T, x.Pos())
		}
		return intV(sub(a.S, mul(b.S, q)), T)
	case token.SHL:
		if n, ok := litVal(b.S); ok {
			if !n.IsInt64() || n.Int64() > 128 || n.Sign() < 0 {
				unsup("shift count")
			}
			return vc.arith(mul(a.S, lit(pow2(uint(n.Int64())))), T, x.Pos())
		}
		if v, ok := litVal(a.S); ok {
			// c << n with variable n: case split on n in 0..63, else 0 (after wrap)
			bits := basicBits(bt)
			t := "0"
			for i := int(bits) - 1; i >= 0; i-- {
				sh := new(big.Int).Lsh(v, uint(i))
				t = ite(eq(b.S, litI(int64(i))), wrapTo(lit(sh), T), t)
			}
			vc.oblige("overflow", R, le("0", b.S), x.Pos(), "negative shift count")
			return intV(t, T)
		}
		unsup("variable shift of non-constant")
	case token.SHR:
		if n, ok := litVal(b.S); ok {
			if !n.IsInt64() || n.Int64() > 128 || n.Sign() < 0 {
				unsup("shift count")
			}
			return intV(sx("div", a.S, lit(pow2(uint(n.Int64())))), T)
		}
		unsup("variable right shift")
	case token.AND:
		for _, pair := range [][2]SVal{{a, b}, {b, a}} {
			if m, ok := litVal(pair[1].S); ok {
				m1 := new(big.Int).Add(m, big.NewInt(1))
				if m.Sign() >= 0 && m1.BitLen()-1 >= 0 && new(big.Int).Lsh(big.NewInt(1), uint(m1.BitLen()-1)).Cmp(m1) == 0 {
					return intV(sx("mod", pair[0].S, lit(m1)), T)
				}
			}
		}
		unsup("bitwise & with non-mask operand")
	case token.OR:
		if bitWidth(x.X) <= lowZeros(x.Y) || bitWidth(x.Y) <= lowZeros(x.X) {
			return intV(add(a.S, b.S), T)
		}
		unsup("bitwise | of operands with overlapping bits")
	}
	unsup("binary op %v", x.Op)
	return SVal{}
}

func (vc *VC) equal(a, b SVal, T types.Type) string {
	switch a.K {
	case KInt, KBool, KRef:
		if b.K == KRef && a.K == KRef || a.K == b.K {
			return eq(a.S, b.S)
		}
		if b.K == KRef && b.S == "0" {
			return eq(a.S, "0")
		}
		return eq(a.S, b.S)
	case KFloat:
		return sx("fp.eq", a.S, b.S)
	case KSlice:
		// only comparison with nil is legal Go
		return eq(a.obj(), "0")
	case KPtr:
		// nil is "object 0", whatever the offset component says
		if b.K == KRef || (b.K == KPtr && b.obj() == "0") {
			return eq(a.obj(), "0")
		}
		if a.obj() == "0" {
			return eq(b.obj(), "0")
		}
		return and(eq(a.obj(), b.obj()), eq(a.off(), b.off()))
	case KString:
		if b.K == KString {
			if b.ln() == "0" {
				return eq(a.ln(), "0")
			}
			if a.ln() == "0" {
				return eq(b.ln(), "0")
			}
			return vc.stringEq(a, b)
		}
	case KStruct:
		var parts []string
		st := T.Underlying().(*types.Struct)
		for i := range a.F {
			parts = append(parts, vc.equal(a.F[i], b.F[i], st.Field(i).Type()))
		}
		return and(parts...)
	case KArr:
		n := flatLen(T)
		if n > 64 {
			unsup("comparison of large arrays")
		}
		var parts []string
		for i := int64(0); i < n; i++ {
			parts = append(parts, eq(sel(a.S, litI(i)), sel(b.S, litI(i))))
		}
		return and(parts...)
	}
	unsup("equality on %v", T)
	return ""
}

// stringEq: content equality, axiomatised through an uninterpreted content id.
func (vc *VC) stringEq(a, b SVal) string {
	// strid(o, f, l): an abstract identifier of the CONTENT of the string view (o, f, l): two strings
	// are equal iff they have the same length and, when non-empty, the same content id. Literal
	// constants get pairwise distinct ids (constStr), a dynamic string may equal any of them.
	vc.stridDecl()
	return and(eq(a.ln(), b.ln()), or(eq(a.ln(), "0"), eq(sx("strid", a.obj(), a.off(), a.ln()), sx("strid", b.obj(), b.off(), b.ln()))))
}

func (vc *VC) stridDecl() {
	if !vc.declared["strid"] {
		vc.declared["strid"] = true
		vc.emit("(declare-fun strid (Int Int Int) Int)")
	}
}

// constStr returns the value of a string literal: its own constant object and content id.
func (vc *VC) constStr(T types.Type, s string) SVal {
	id := vc.eng.stringID(s)
	name := fmt.Sprintf("$S%d", id)
	if !vc.declared[name] {
		vc.declare(name, SInt)
		vc.fact("true", and(lt("0", name), lt(name, "$A0")))
		if len(s) > 0 {
			vc.stridDecl()
			vc.fact("true", eq(sx("strid", name, "0", litI(int64(len(s)))), litI(int64(id))))
		}
	}
	return stringV(T, name, "0", litI(int64(len(s))))
}

// indexing -----------------------------------------------------------------

func (vc *VC) indexAddr(x *ssa.IndexAddr) SVal {
	R := vc.R[vc.cur]
	base := vc.val(x.X)
	i := vc.val(x.Index).S
	switch u := x.X.Type().Underlying().(type) {
	case *types.Slice:
		vc.oblige("index", R, and(le("0", i), lt(i, base.ln())), x.Pos(), "slice index out of range")
		el := u.Elem()
		fl := litI(flatLen(el))
		p := ptrV(x.Type(), base.obj(), vc.def("ix", SInt, idx(base.off(), mul(i, fl))))
		p.Key = ptrKeyFor(el)
		if _, isArr := el.Underlying().(*types.Array); isArr {
			p.Key = typeKey(flatElem(el))
		}
		p.Lo, p.Hi = base.off(), add(base.off(), mul(base.ln(), fl))
		return p
	case *types.Pointer:
		arr := u.Elem().Underlying().(*types.Array)
		vc.nilCheck(base, x.Pos(), R)
		if _, isl := litVal(i); !isl || true {
			vc.oblige("index", R, and(le("0", i), lt(i, litI(arr.Len()))), x.Pos(), "array index out of range")
		}
		el := arr.Elem()
		fl := litI(flatLen(el))
		p := ptrV(x.Type(), base.obj(), vc.def("ix", SInt, idx(base.off(), mul(i, fl))))
		p.Key = base.Key
		if p.Key == "" {
			p.Key = ptrKeyFor(el)
		}
		if _, isSt := el.Underlying().(*types.Struct); isSt {
			p.Key = ""
		}
		p.Lo, p.Hi = base.off(), add(base.off(), litI(flatLen(arr)))
		return p
	}
	unsup("IndexAddr on %v", x.X.Type())
	return SVal{}
}

func (vc *VC) index(x *ssa.Index) SVal {
	R := vc.R[vc.cur]
	base := vc.val(x.X)
	i := vc.val(x.Index).S
	switch u := x.X.Type().Underlying().(type) {
	case *types.Array:
		vc.oblige("index", R, and(le("0", i), lt(i, litI(u.Len()))), x.Pos(), "array index out of range")
		if _, nested := u.Elem().Underlying().(*types.Array); nested {
			n := flatLen(u.Elem())
			a := vc.declare(vc.sym("sub"), SA1)
			for k := int64(0); k < n && n <= 64; k++ {
				vc.fact("true", eq(sel(a, litI(k)), sel(base.S, add(mul(i, litI(n)), litI(k)))))
			}
			if n > 64 {
				unsup("large nested array")
			}
			return SVal{K: KArr, T: x.Type(), S: a}
		}
		v := intV(sel(base.S, i), x.Type())
		vc.fact("true", rangeFact(v.S, x.Type()))
		return v
	case *types.Basic: // string
		vc.oblige("index", R, and(le("0", i), lt(i, base.ln())), x.Pos(), "string index out of range")
		v := intV(vc.def("sb", SInt, vc.leafLoad(vc.curMem, "uint8", SInt, base.obj(), idx(base.off(), i))), x.Type())
		vc.fact("true", rangeFact(v.S, x.Type()))
		return v
	}
	unsup("Index on %v", x.X.Type())
	return SVal{}
}

func (vc *VC) slice(x *ssa.Slice) SVal {
	R := vc.R[vc.cur]
	base := vc.val(x.X)
	var lo, hi, mx string
	if x.Low != nil {
		lo = vc.val(x.Low).S
	} else {
		lo = "0"
	}
	switch u := x.X.Type().Underlying().(type) {
	case *types.Slice:
		if x.High != nil {
			hi = vc.val(x.High).S
		} else {
			hi = base.ln()
		}
		mx = base.cp()
		if x.Max != nil {
			m := vc.val(x.Max).S
			vc.oblige("slice", R, and(le("0", lo), le(lo, hi), le(hi, m), le(m, base.cp())), x.Pos(), "slice bounds out of range")
			mx = m
		} else {
			vc.oblige("slice", R, and(le("0", lo), le(lo, hi), le(hi, base.cp())), x.Pos(), "slice bounds out of range")
		}
		fl := litI(flatLen(u.Elem()))
		r := sliceV(x.Type(), base.obj(), add(base.off(), mul(lo, fl)), sub(hi, lo), sub(mx, lo))
		// slicing a nil slice yields nil (only [0:0] is possible)
		return vc.nameVal(r, "sl")
	case *types.Basic: // string
		if x.High != nil {
			hi = vc.val(x.High).S
		} else {
			hi = base.ln()
		}
		vc.oblige("slice", R, and(le("0", lo), le(lo, hi), le(hi, base.ln())), x.Pos(), "string slice bounds out of range")
		return vc.nameVal(stringV(x.Type(), base.obj(), add(base.off(), lo), sub(hi, lo)), "ss")
	case *types.Pointer:
		arr := u.Elem().Underlying().(*types.Array)
		n := litI(arr.Len())
		vc.nilCheck(base, x.Pos(), R)
		if x.High != nil {
			hi = vc.val(x.High).S
		} else {
			hi = n
		}
		if !(isLit(lo) && isLit(hi)) || true {
			vc.oblige("slice", R, and(le("0", lo), le(lo, hi), le(hi, n)), x.Pos(), "slice bounds out of range")
		}
		fl := litI(flatLen(arr.Elem()))
		return vc.nameVal(sliceV(x.Type(), base.obj(), add(base.off(), mul(lo, fl)), sub(hi, lo), sub(n, lo)), "sl")
	}
	unsup("Slice on %v", x.X.Type())
	return SVal{}
}

// conversions --------------------------------------------------------------

func (vc *VC) convert(x *ssa.Convert) SVal {
	v := vc.val(x.X)
	from, to := x.X.Type().Underlying(), x.Type().Underlying()
	fb, fok := from.(*types.Basic)
	tb, tok := to.(*types.Basic)
	switch {
	case fok && tok && fb.Info()&types.IsInteger != 0 && tb.Info()&types.IsInteger != 0:
		flo, fhi, _ := intRange(from)
		tlo, thi, _ := intRange(to)
		if flo != nil && tlo != nil && flo.Cmp(tlo) >= 0 && fhi.Cmp(thi) <= 0 {
			return intV(v.S, x.Type())
		}
		return intV(vc.def("cv", SInt, wrapTo(v.S, x.Type())), x.Type())
	case tok && tb.Kind() == types.UnsafePointer:
		if v.K != KPtr {
			unsup("conversion of %v to unsafe.Pointer", x.X.Type())
		}
		r := v
		r.T = x.Type()
		r.Unsafe = true
		if pt, ok := from.(*types.Pointer); ok {
			r.Orig = pt.Elem()
		}
		if r.Lo == "" {
			r.Lo, r.Hi = v.off(), add(v.off(), "1")
		}
		return r
	case fok && fb.Kind() == types.UnsafePointer:
		pt, ok := to.(*types.Pointer)
		if !ok {
			unsup("conversion of unsafe.Pointer to %v", x.Type())
		}
		r := v
		r.T = x.Type()
		r.Unsafe = true
		r.Key = ptrKeyFor(pt.Elem())
		if v.Orig != nil && types.Identical(v.Orig, pt.Elem()) {
			r.Orig = nil
		}
		// a byte pointer into a byte object keeps its provenance; element size must be 1
		if v.Orig != nil {
			if _, isSlice := v.Orig.Underlying().(*types.Slice); !isSlice {
				if typeKey(v.Orig) == typeKey(pt.Elem()) {
					r.Orig = nil
				}
			}
		}
		return r
	case fok && tok && fb.Info()&types.IsFloat != 0 && tb.Info()&types.IsFloat != 0:
		so, _ := scalarSort(x.Type())
		if so == SF32 {
			return SVal{K: KFloat, T: x.Type(), S: sx("(_ to_fp 8 24)", "RNE", v.S)}
		}
		return SVal{K: KFloat, T: x.Type(), S: sx("(_ to_fp 11 53)", "RNE", v.S)}
	case fok && fb.Info()&types.IsString != 0:
		if _, ok := to.(*types.Slice); ok {
			// []byte(s): fresh object holding a copy
			obj := vc.newObj()
			M := vc.memGet(vc.curMem, "uint8", SInt)
			a := vc.declare(vc.sym("cpy"), SA1)
			vc.emit(fmt.Sprintf("(assert (forall ((i Int)) (! (=> (and (<= 0 i) (< i %s)) (= (select %s i) (select (select %s %s) (+ %s i)))) :pattern ((select %s i)))))", v.ln(), a, M, v.obj(), v.off(), a))
			vc.curMem.m["uint8"] = vc.def("M_uint8", memSort(SInt), sto(M, obj, a))
			return sliceV(x.Type(), obj, "0", v.ln(), v.ln())
		}
	case tok && tb.Info()&types.IsString != 0:
		if _, ok := from.(*types.Slice); ok {
			obj := vc.newObj()
			M := vc.memGet(vc.curMem, "uint8", SInt)
			a := vc.declare(vc.sym("cpy"), SA1)
			vc.emit(fmt.Sprintf("(assert (forall ((i Int)) (! (=> (and (<= 0 i) (< i %s)) (= (select %s i) (select (select %s %s) (+ %s i)))) :pattern ((select %s i)))))", v.ln(), a, M, v.obj(), v.off(), a))
			vc.curMem.m["uint8"] = vc.def("M_uint8", memSort(SInt), sto(M, obj, a))
			return stringV(x.Type(), obj, "0", v.ln())
		}
		if fok && fb.Info()&types.IsInteger != 0 {
			r := vc.fresh(x.Type(), "runestr")
			return r
		}
	case fok && tok && fb.Info()&types.IsInteger != 0 && tb.Info()&types.IsFloat != 0:
		so, _ := scalarSort(x.Type())
		w := "11 53"
		if so == SF32 {
			w = "8 24"
		}
		return SVal{K: KFloat, T: x.Type(), S: sx("(_ to_fp "+w+")", "RNE", sx("to_real", v.S))}
	}
	unsup("conversion %v -> %v", x.X.Type(), x.Type())
	return SVal{}
}

// interfaces -----------------------------------------------------------------

func (vc *VC) typeofFn() string {
	if !vc.declared["typeof"] {
		vc.declared["typeof"] = true
		vc.emit("(declare-fun typeof (Int) Int)")
	}
	return "typeof"
}

func (vc *VC) boxPayload(r SVal, T types.Type, v SVal) {
	i := 0
	mapLeaves(v, func(s string, sort Sort) string {
		fn := fmt.Sprintf("unbox_%d_%d", vc.eng.typeID(T), i)
		if !vc.declared[fn] {
			vc.declared[fn] = true
			vc.emit(fmt.Sprintf("(declare-fun %s (Int) %s)", fn, sort))
		}
		vc.fact("true", eq(sx(fn, r.S), s))
		i++
		return s
	})
}

func (vc *VC) typeAssert(x *ssa.TypeAssert) SVal {
	R := vc.R[vc.cur]
	v := vc.val(x.X)
	if types.IsInterface(x.AssertedType) {
		r := vc.fresh(x.AssertedType, "ta")
		ok := vc.declare(vc.sym("taok"), SBool)
		vc.fact("true", implies(ok, eq(r.S, v.S)))
		vc.fact("true", implies(eq(v.S, "0"), not(ok)))
		if x.CommaOk {
			return SVal{K: KTuple, T: x.Type(), F: []SVal{vc.iteVal(ok, r, vc.zero(x.AssertedType)), boolV(ok)}}
		}
		vc.oblige("type-assert", R, ok, x.Pos(), "interface type assertion may fail")
		return r
	}
	okT := and(not(eq(v.S, "0")), eq(sx(vc.typeofFn(), v.S), litI(int64(vc.eng.typeID(x.AssertedType)))))
	r := vc.unboxVal(v, x.AssertedType)
	if x.CommaOk {
		return SVal{K: KTuple, T: x.Type(), F: []SVal{vc.iteVal(okT, r, vc.zero(x.AssertedType)), boolV(okT)}}
	}
	vc.oblige("type-assert", R, okT, x.Pos(), "type assertion may fail")
	return r
}
