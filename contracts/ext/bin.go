//go:build verif

// Contracts for github.com/basecomplextech/baselibrary/bin (dependency; source loaded from
// the module cache and VERIFIED against these contracts).
package ext

//@ package github.com/basecomplextech/baselibrary/bin

//@ func Parse64
//@   safety[C02]
//@   ensures[!C02] len(p) == 8 ==> result1 == nil && (forall i :: 0 <= i && i < 8 ==> result0[i] == p[i])
//@   ensures[!C02] len(p) != 8 && len(p) != 0 ==> result1 != nil
//@   ensures[!C02] len(p) == 0 ==> result1 == nil && (forall i :: 0 <= i && i < 8 ==> result0[i] == 0)
//@   noalloc[C17]

//@ func Parse128
//@   safety[C02]
//@   ensures[!C02] len(b) == 16 ==> result1 == nil && (forall i :: 0 <= i && i < 16 ==> result0[i] == b[i])
//@   ensures[!C02] len(b) != 16 && len(b) != 0 ==> result1 != nil
//@   ensures[!C02] len(b) == 0 ==> result1 == nil && (forall i :: 0 <= i && i < 16 ==> result0[i] == 0)
//@   noalloc[C17]

//@ func Parse256
//@   safety[C02]
//@   ensures[!C02] len(b) == 32 ==> result1 == nil && (forall i :: 0 <= i && i < 32 ==> result0[i] == b[i])
//@   ensures[!C02] len(b) != 32 && len(b) != 0 ==> result1 != nil
//@   ensures[!C02] len(b) == 0 ==> result1 == nil && (forall i :: 0 <= i && i < 32 ==> result0[i] == 0)
//@   noalloc[C17]

//@ func (Bin64).MarshalTo
//@   safety[C08]
//@   requires len(buf) >= 8
//@   modifies uint8 at buf
//@   ensures forall i :: 0 <= i && i < 8 ==> buf[i] == b[i]
//@   ensures forall j :: (j < lo(buf) || j >= lo(buf) + 8) ==> mem(buf)[j] == old(mem(buf))[j]
//@   noalloc[C17]

//@ func (Bin128).MarshalTo
//@   safety[C08]
//@   requires len(buf) >= 16
//@   modifies uint8 at buf
//@   ensures forall i :: 0 <= i && i < 16 ==> buf[i] == b[i]
//@   ensures forall j :: (j < lo(buf) || j >= lo(buf) + 16) ==> mem(buf)[j] == old(mem(buf))[j]
//@   noalloc[C17]

//@ func (Bin256).MarshalTo
//@   safety[C08]
//@   requires len(buf) >= 32
//@   modifies uint8 at buf
//@   ensures forall i :: 0 <= i && i < 32 ==> buf[i] == b[i]
//@   ensures forall j :: (j < lo(buf) || j >= lo(buf) + 32) ==> mem(buf)[j] == old(mem(buf))[j]
//@   noalloc[C17]
