//go:build verif

// ASSUMED contracts of baselibrary/async contexts (interfaces; no bodies are verified).
package ext

//@ package github.com/basecomplextech/baselibrary/async/internal/context

//@ iface Context.Wait
// Status: arbitrary; ghost(lastStatusOK, 0) records whether the last Status() call of THIS call
// returned OK (a context whose Wait channel fired reports a non-OK status in reality; contracts
// that depend on it say so explicitly instead of assuming it)
//@ iface Context.Status
//@   modifies ghost.lastStatusOK at 0
//@   ensures (ghost(lastStatusOK, 0) == 1) <==> result.Code == "ok"
//@ iface Context.Done
//@ iface CancelContext.Wait
//@ iface CancelContext.Status
//@ iface CancelContext.Done
//@ iface CancelContext.Cancel
//@ iface CancelContext.Free

//@ package github.com/basecomplextech/baselibrary/async

// routines: the started goroutine is not modelled (every obligation is about one call alone)
//@ func RunVoid
//@   trusted
//@   ensures result != nil
//@ func StopWaitAll
//@   trusted
//@ iface Routine.Wait
//@ iface Routine.Status
//@ iface Routine.Stop
