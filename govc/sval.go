package main

import (
	"fmt"
	"go/types"
	"math/big"
	"regexp"
	"strings"
)

// ---------------------------------------------------------------- symbolic values

type Kind int

const (
	KInt Kind = iota
	KBool
	KString // F = obj, off, len
	KSlice  // F = obj, off, len, cap
	KPtr    // F = obj, off
	KStruct // F = fields
	KTuple  // F = components
	KArr    // S = (Array Int Int) term, flat
	KRef    // interface / map / chan / func / opaque: S = Int term (0 = nil)
	KFloat  // S = FP term
)

type SVal struct {
	K Kind
	T types.Type
	S string
	F []SVal

	// static pointer attributes
	Key    string     // memory key base for non-struct pointee
	Unsafe bool       // derived through unsafe.Pointer: dereference needs a bounds obligation
	Lo, Hi string     // provenance: valid offsets are Lo <= off < Hi (only when Unsafe)
	Orig   types.Type // pointee type before unsafe casts

	// a struct-typed FIELD read lazily in a contract expression: the value is the struct stored at
	// this address in LazyMem (not the address itself)
	LazyMem *Mem
}

func intV(s string, T types.Type) SVal  { return SVal{K: KInt, T: T, S: s} }
func boolV(s string) SVal               { return SVal{K: KBool, T: types.Typ[types.Bool], S: s} }
func refV(s string, T types.Type) SVal  { return SVal{K: KRef, T: T, S: s} }
func (v SVal) obj() string              { return v.F[0].S }
func (v SVal) off() string              { return v.F[1].S }
func (v SVal) ln() string               { return v.F[2].S }
func (v SVal) cp() string               { return v.F[3].S }
func mkInt(s string) SVal               { return SVal{K: KInt, T: types.Typ[types.Int], S: s} }
func sliceV(T types.Type, o, f, l, c string) SVal {
	return SVal{K: KSlice, T: T, F: []SVal{mkInt(o), mkInt(f), mkInt(l), mkInt(c)}}
}
func stringV(T types.Type, o, f, l string) SVal {
	return SVal{K: KString, T: T, F: []SVal{mkInt(o), mkInt(f), mkInt(l)}}
}
func ptrV(T types.Type, o, f string) SVal {
	return SVal{K: KPtr, T: T, F: []SVal{mkInt(o), mkInt(f)}}
}

type Sort string

const (
	SInt  Sort = "Int"
	SBool Sort = "Bool"
	SA1   Sort = "(Array Int Int)"
	SF32  Sort = "(_ FloatingPoint 8 24)"
	SF64  Sort = "(_ FloatingPoint 11 53)"
)

func memSort(leaf Sort) Sort { return Sort("(Array Int (Array Int " + string(leaf) + "))") }
func arrSort(leaf Sort) Sort { return Sort("(Array Int " + string(leaf) + ")") }

// ---------------------------------------------------------------- smt helpers

func sx(op string, args ...string) string { return "(" + op + " " + strings.Join(args, " ") + ")" }
func and(args ...string) string {
	var a []string
	for _, x := range args {
		if x == "true" || x == "" {
			continue
		}
		if x == "false" {
			return "false"
		}
		a = append(a, x)
	}
	switch len(a) {
	case 0:
		return "true"
	case 1:
		return a[0]
	}
	return sx("and", a...)
}
func or(args ...string) string {
	var a []string
	for _, x := range args {
		if x == "false" || x == "" {
			continue
		}
		if x == "true" {
			return "true"
		}
		a = append(a, x)
	}
	switch len(a) {
	case 0:
		return "false"
	case 1:
		return a[0]
	}
	return sx("or", a...)
}
func not(x string) string {
	switch x {
	case "true":
		return "false"
	case "false":
		return "true"
	}
	return sx("not", x)
}
func implies(a, b string) string {
	if a == "true" {
		return b
	}
	if b == "true" || a == "false" {
		return "true"
	}
	return sx("=>", a, b)
}
func ite(c, a, b string) string {
	if c == "true" || a == b {
		return a
	}
	if c == "false" {
		return b
	}
	return sx("ite", c, a, b)
}
func eq(a, b string) string {
	if a == b {
		return "true"
	}
	return sx("=", a, b)
}

var reNum = regexp.MustCompile(`^-?[0-9]+$`)

func isLit(s string) bool { return reNum.MatchString(s) || (strings.HasPrefix(s, "(- ") && reNum.MatchString(strings.TrimSuffix(s[3:], ")"))) }
func litVal(s string) (*big.Int, bool) {
	if strings.HasPrefix(s, "(- ") {
		n, ok := new(big.Int).SetString(strings.TrimSuffix(s[3:], ")"), 10)
		if !ok {
			return nil, false
		}
		return n.Neg(n), true
	}
	if reNum.MatchString(s) {
		n, ok := new(big.Int).SetString(s, 10)
		return n, ok
	}
	return nil, false
}
func lit(n *big.Int) string {
	if n.Sign() < 0 {
		return "(- " + new(big.Int).Neg(n).String() + ")"
	}
	return n.String()
}
func litI(n int64) string { return lit(big.NewInt(n)) }
func add(a, b string) string {
	if a == "0" {
		return b
	}
	if b == "0" {
		return a
	}
	x, ok1 := litVal(a)
	y, ok2 := litVal(b)
	if ok1 && ok2 {
		return lit(new(big.Int).Add(x, y))
	}
	return sx("+", a, b)
}
func sub(a, b string) string {
	if b == "0" {
		return a
	}
	x, ok1 := litVal(a)
	y, ok2 := litVal(b)
	if ok1 && ok2 {
		return lit(new(big.Int).Sub(x, y))
	}
	return sx("-", a, b)
}
func mul(a, b string) string {
	if a == "1" {
		return b
	}
	if b == "1" {
		return a
	}
	x, ok1 := litVal(a)
	y, ok2 := litVal(b)
	if ok1 && ok2 {
		return lit(new(big.Int).Mul(x, y))
	}
	return sx("*", a, b)
}
func le(a, b string) string { return sx("<=", a, b) }
func lt(a, b string) string { return sx("<", a, b) }
func sel(a, i string) string { return sx("select", a, i) }
func sel2(m, o, i string) string { return sel(sel(m, o), i) }
func sto(a, i, v string) string { return sx("store", a, i, v) }

func pow2(n uint) *big.Int { return new(big.Int).Lsh(big.NewInt(1), n) }

// ---------------------------------------------------------------- go types

func isUnsigned(b *types.Basic) bool { return b.Info()&types.IsUnsigned != 0 }

func basicBits(b *types.Basic) uint {
	switch b.Kind() {
	case types.Int8, types.Uint8:
		return 8
	case types.Int16, types.Uint16:
		return 16
	case types.Int32, types.Uint32:
		return 32
	case types.Int64, types.Uint64, types.Int, types.Uint, types.Uintptr:
		return 64
	case types.UntypedInt, types.UntypedRune:
		return 64
	}
	return 0
}

// intRange returns the min/max of an integer type.
func intRange(T types.Type) (lo, hi *big.Int, ok bool) {
	b, isb := T.Underlying().(*types.Basic)
	if !isb || b.Info()&types.IsInteger == 0 {
		return nil, nil, false
	}
	n := basicBits(b)
	if n == 0 {
		return nil, nil, false
	}
	if isUnsigned(b) {
		return big.NewInt(0), new(big.Int).Sub(pow2(n), big.NewInt(1)), true
	}
	return new(big.Int).Neg(pow2(n - 1)), new(big.Int).Sub(pow2(n-1), big.NewInt(1)), true
}

func rangeFact(t string, T types.Type) string {
	lo, hi, ok := intRange(T)
	if !ok {
		return "true"
	}
	return and(le(lit(lo), t), le(t, lit(hi)))
}

// wrap reduces the mathematical value t into the range of integer type T (Go conversion semantics).
func wrapTo(t string, T types.Type) string {
	lo, hi, ok := intRange(T)
	if !ok {
		return t
	}
	if v, isl := litVal(t); isl {
		m := new(big.Int).Add(new(big.Int).Sub(hi, lo), big.NewInt(1))
		r := new(big.Int).Sub(v, lo)
		r.Mod(r, m)
		r.Add(r, lo)
		return lit(r)
	}
	m := new(big.Int).Add(new(big.Int).Sub(hi, lo), big.NewInt(1))
	if lo.Sign() == 0 {
		return sx("mod", t, lit(m))
	}
	return sub(sx("mod", sub(t, lit(lo)), lit(m)), lit(new(big.Int).Neg(lo)))
}

var reSan = regexp.MustCompile(`[^A-Za-z0-9_.]`)

func sanitize(s string) string { return reSan.ReplaceAllString(s, "_") }

// typeKey is the memory-key base for an element / pointee type.
func typeKey(T types.Type) string {
	switch t := T.(type) {
	case *types.Named:
		if _, ok := t.Underlying().(*types.Struct); ok {
			o := t.Obj()
			n := o.Name()
			if o.Pkg() != nil {
				n = o.Pkg().Name() + "." + n
			}
			if ta := t.TypeArgs(); ta != nil && ta.Len() > 0 {
				for i := 0; i < ta.Len(); i++ {
					n += "_" + sanitize(types.TypeString(ta.At(i), func(p *types.Package) string { return p.Name() }))
				}
			}
			return n
		}
		return typeKey(t.Underlying())
	case *types.Alias:
		return typeKey(types.Unalias(t))
	case *types.Basic:
		switch t.Kind() {
		case types.Uint8:
			return "uint8"
		case types.Int32:
			return "int32"
		}
		return t.Name()
	case *types.Array:
		return typeKey(t.Elem())
	case *types.Struct:
		return sanitize(types.TypeString(t, func(p *types.Package) string { return p.Name() }))
	case *types.Pointer:
		return "ptr"
	case *types.Slice:
		return "slice_" + typeKey(t.Elem())
	case *types.Interface:
		return "iface"
	case *types.Map:
		return "map"
	case *types.Chan:
		return "chan"
	case *types.Signature:
		return "func"
	}
	return sanitize(T.String())
}

// flatLen: number of flat cells an array-ish type occupies in element memory.
func flatLen(T types.Type) int64 {
	if a, ok := T.Underlying().(*types.Array); ok {
		return a.Len() * flatLen(a.Elem())
	}
	return 1
}

func flatElem(T types.Type) types.Type {
	if a, ok := T.Underlying().(*types.Array); ok {
		return flatElem(a.Elem())
	}
	return T
}

type unsupported struct{ msg string }

func unsup(f string, a ...any) { panic(unsupported{fmt.Sprintf(f, a...)}) }

// leafSortOfScalar returns the SMT sort for a scalar Go type.
func scalarSort(T types.Type) (Sort, bool) {
	switch u := T.Underlying().(type) {
	case *types.Basic:
		switch {
		case u.Info()&types.IsInteger != 0:
			return SInt, true
		case u.Info()&types.IsBoolean != 0:
			return SBool, true
		case u.Kind() == types.Float32:
			return SF32, true
		case u.Kind() == types.Float64, u.Kind() == types.UntypedFloat:
			return SF64, true
		case u.Kind() == types.UnsafePointer:
			return "", false
		}
	case *types.Interface, *types.Map, *types.Chan, *types.Signature:
		return SInt, true
	}
	return "", false
}

// mapLeaves applies f to every scalar leaf term of v (in order), returning the rebuilt value.
func mapLeaves(v SVal, f func(s string, sort Sort) string) SVal {
	switch v.K {
	case KInt, KRef:
		v.S = f(v.S, SInt)
	case KBool:
		v.S = f(v.S, SBool)
	case KArr:
		v.S = f(v.S, SA1)
	case KFloat:
		so, _ := scalarSort(v.T)
		v.S = f(v.S, so)
	default:
		nf := make([]SVal, len(v.F))
		for i := range v.F {
			nf[i] = mapLeaves(v.F[i], f)
		}
		v.F = nf
	}
	return v
}

func zipLeaves(a, b SVal, f func(x, y string, sort Sort) string) SVal {
	switch a.K {
	case KInt, KRef:
		a.S = f(a.S, b.S, SInt)
	case KBool:
		a.S = f(a.S, b.S, SBool)
	case KArr:
		a.S = f(a.S, b.S, SA1)
	case KFloat:
		so, _ := scalarSort(a.T)
		a.S = f(a.S, b.S, so)
	default:
		if len(a.F) != len(b.F) {
			unsup("zip of differently shaped values (%v vs %v)", a.T, b.T)
		}
		nf := make([]SVal, len(a.F))
		for i := range a.F {
			nf[i] = zipLeaves(a.F[i], b.F[i], f)
		}
		a.F = nf
		if a.K == KPtr {
			if a.Key != b.Key && b.Key != "" && a.Key != "" {
				unsup("merge of pointers with different memory keys %q %q", a.Key, b.Key)
			}
			if a.Key == "" {
				a.Key = b.Key
			}
			if a.Unsafe || b.Unsafe {
				if a.Lo != b.Lo || a.Hi != b.Hi {
					unsup("merge of unsafe pointers with different provenance")
				}
			}
		}
	}
	return a
}

func eqVal(a, b SVal) string {
	var parts []string
	zipLeaves(a, b, func(x, y string, s Sort) string {
		parts = append(parts, eq(x, y))
		return x
	})
	return and(parts...)
}

// idx(a, b) = a + b, through an uninterpreted function with a definitional axiom (see the
// prelude): element addresses built this way give quantified clauses over s[k] a trigger that
// matches whatever normal form the index expression has.
func idx(a, b string) string {
	if isLit(b) {
		return add(a, b) // constant offsets need no trigger and keep store/select chains simple
	}
	return sx("idx", a, b)
}
