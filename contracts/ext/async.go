//go:build verif

// ASSUMED contracts of baselibrary/async contexts (interfaces; no bodies are verified).
package ext

//@ package github.com/basecomplextech/baselibrary/async/internal/context

//@ iface Context.Wait
//@ iface Context.Status
//@ iface Context.Done
//@ iface CancelContext.Wait
//@ iface CancelContext.Status
//@ iface CancelContext.Done
//@ iface CancelContext.Cancel
//@ iface CancelContext.Free

//@ package github.com/basecomplextech/baselibrary/async

// routines: the started goroutine is not modelled (every obligation is about one call alone)
//@ func RunVoid
//@   trusted
//@   ensures result != nil
//@ func StopWaitAll
//@   trusted
//@ iface Routine.Wait
//@ iface Routine.Status
//@ iface Routine.Stop
