package main

import (
	"fmt"
	"go/types"
	"strings"
)

// resetObligations: for `resets p`, one obligation per field of *p, GENERATED FROM THE STRUCT'S
// FIELD LIST (so a field added later and forgotten by the reset is caught without touching the
// contract): on return the field holds its zero value. Slices must be empty (their capacity may
// be kept), strings empty, pointers / interfaces / maps / funcs nil, numbers 0, bools false,
// nested structs recursively. Fields named by `retains p.path` are exempt.
func (vc *VC) resetObligations(Rexit string, env *Env) {
	if vc.con == nil {
		return
	}
	for _, rs := range vc.con.Resets {
		p, ok := env.vars[rs.Param]
		if !ok || p.K != KPtr {
			unsup("resets %s: not a pointer parameter", rs.Param)
		}
		pt, ok := p.T.Underlying().(*types.Pointer)
		if !ok {
			unsup("resets %s: not a pointer", rs.Param)
		}
		vc.resetWalk(Rexit, env, rs, p, pt.Elem(), rs.Param)
	}
}

func (vc *VC) retained(path string) bool {
	for _, r := range vc.con.Retains {
		if r == path || strings.HasPrefix(path, r+".") {
			return true
		}
	}
	return false
}

func (vc *VC) resetWalk(Rexit string, env *Env, rs ResetSpec, p SVal, T types.Type, path string) {
	st, ok := T.Underlying().(*types.Struct)
	if !ok {
		unsup("resets: %s is not a struct", path)
	}
	for i := 0; i < st.NumFields(); i++ {
		f := st.Field(i)
		fpath := path + "." + f.Name()
		if vc.retained(fpath) {
			continue
		}
		fp := vc.fieldPtr(p, T, i)
		switch u := f.Type().Underlying().(type) {
		case *types.Struct:
			vc.resetWalk(Rexit, env, rs, fp, f.Type(), fpath)
			continue
		case *types.Array:
			_ = u
			// a fixed array embedded in the object: every cell zero
			n := flatLen(f.Type())
			key := typeKey(flatElem(f.Type()))
			if so, ok := scalarSort(flatElem(f.Type())); !ok || so != SInt {
				unsup("resets: array field %s of non-integer elements must be listed under retains", fpath)
			}
			inner := sel(vc.memGet(env.mem, key, SInt), fp.obj())
			goal := fmt.Sprintf("(forall ((i Int)) (=> (and (<= 0 i) (< i %d)) (= (select %s i) 0)))", n, inner)
			vc.resetOblige(Rexit, rs, fpath, goal)
			continue
		}
		v := vc.loadSpec(fp, f.Type(), env.mem)
		var goal string
		switch v.K {
		case KInt:
			goal = eq(v.S, "0")
		case KBool:
			goal = not(v.S)
		case KRef:
			goal = eq(v.S, "0")
		case KPtr:
			goal = eq(v.obj(), "0")
		case KSlice, KString:
			goal = eq(v.ln(), "0")
		case KFloat:
			goal = sx("fp.isZero", v.S)
		default:
			unsup("resets: field %s has a kind that must be listed under retains", fpath)
		}
		vc.resetOblige(Rexit, rs, fpath, goal)
	}
}

func (vc *VC) resetOblige(Rexit string, rs ResetSpec, fpath, goal string) {
	o := vc.oblige("reset", Rexit, goal, vc.fn.Pos(), "after the reset, field "+fpath+" holds its zero value (generated from the struct's field list)")
	o.Name = fmt.Sprintf("%s#reset.%s", vc.fname(), sanitize(fpath))
	o.Tags = rs.Tags
}
