module mutgen

go 1.26
